// rxcheck: the real `regex` crate behind a line protocol.  Used to (1) extract the exact code-point sets of
// \d \s \w [[:alpha:]] . from the regex crate itself, (2) validate the regex->SMT translator, (3) replay witnesses.
//   C <pattern>                      -> ranges "lo-hi lo-hi ..." of all chars c such that ^(?:pattern)$ matches c (single-char classes)
//   M <pattern> \t <text>            -> "null" | "s,e s,e - ..." capture group spans (byte offsets) of the first match
//   R <pattern> \t <repl> \t <text>  -> replace_all result (escaped)
//   E <text>                         -> regex::escape(text) (escaped)
use regex::Regex;
use std::io::BufRead;

fn unescape(s: &str) -> String {
    let mut out = String::new();
    let mut it = s.chars().peekable();
    while let Some(c) = it.next() {
        if c != '\\' { out.push(c); continue; }
        match it.next() {
            Some('n') => out.push('\n'), Some('t') => out.push('\t'), Some('\\') => out.push('\\'),
            Some('u') => {
                let mut hex = String::new();
                if it.peek() == Some(&'{') { it.next(); }
                while let Some(&h) = it.peek() { if h == '}' { it.next(); break; } hex.push(h); it.next(); }
                if let Some(ch) = u32::from_str_radix(&hex, 16).ok().and_then(char::from_u32) { out.push(ch); }
            }
            Some(o) => { out.push('\\'); out.push(o); }
            None => out.push('\\'),
        }
    }
    out
}
fn escape(s: &str) -> String {
    let mut o = String::new();
    for c in s.chars() {
        match c { '\\' => o.push_str("\\\\"), '\n' => o.push_str("\\n"), '\t' => o.push_str("\\t"),
                  c if (c as u32) < 0x20 || (c as u32) > 0x7E => o.push_str(&format!("\\u{{{:x}}}", c as u32)), c => o.push(c) }
    }
    o
}
fn main() {
    let stdin = std::io::stdin();
    let mut cache: std::collections::HashMap<String, Regex> = std::collections::HashMap::new();
    for line in stdin.lock().lines() {
        let line = line.unwrap();
        if line.len() < 2 { println!("ERR empty"); continue; }
        let (cmd, rest) = (&line[..1], &line[2..]);
        let parts: Vec<String> = rest.split('\t').map(unescape).collect();
        let pat = parts[0].clone();
        if cmd == "E" { println!("OK {}", escape(&regex::escape(&pat))); continue; }
        let key = if cmd == "C" { format!("^(?:{})$", pat) } else { pat.clone() };
        if !cache.contains_key(&key) {
            match Regex::new(&key) { Ok(r) => { cache.insert(key.clone(), r); }, Err(e) => { println!("ERR {}", escape(&e.to_string())); continue; } }
        }
        let re = &cache[&key];
        match cmd {
            "C" => {
                let mut out = String::new();
                let mut start: Option<u32> = None;
                let mut buf = [0u8; 4];
                for cp in 0..=0x110000u32 {
                    let m = if cp == 0x110000 { false } else { match char::from_u32(cp) { Some(c) => re.is_match(c.encode_utf8(&mut buf)), None => false } };
                    match (m, start) {
                        (true, None) => start = Some(cp),
                        (false, Some(s)) => { out.push_str(&format!("{:x}-{:x} ", s, cp - 1)); start = None; }
                        _ => {}
                    }
                }
                println!("OK {}", out.trim_end());
            }
            "M" => {
                match re.captures(&parts[1]) {
                    None => println!("OK null"),
                    Some(c) => {
                        let v: Vec<String> = (0..c.len()).map(|i| match c.get(i) { Some(m) => format!("{},{}", m.start(), m.end()), None => "-".to_string() }).collect();
                        println!("OK {}", v.join(" "));
                    }
                }
            }
            "R" => println!("OK {}", escape(&re.replace_all(&parts[2], parts[1].as_str()))),
            _ => println!("ERR unknown command"),
        }
    }
}
