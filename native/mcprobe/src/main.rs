// mcprobe: line protocol over MathCAT's public API (built against /repo's current working tree).
// Input:  one command per line:  <cmd>[ <args>]   with \n, \t, \\ and \u{XXXX} escapes in args.
// Output: one line per command:  OK <json-string> | ERR <json-string> | PANIC <json-string>
// Used only for *replaying* solver witnesses through the real API; never the deciding step.
use libmathcat::*;
use std::io::{BufRead, Write};

fn unescape(s: &str) -> String {
    let mut out = String::new();
    let mut it = s.chars().peekable();
    while let Some(c) = it.next() {
        if c != '\\' { out.push(c); continue; }
        match it.next() {
            Some('n') => out.push('\n'),
            Some('t') => out.push('\t'),
            Some('\\') => out.push('\\'),
            Some('u') => {
                let mut hex = String::new();
                if it.peek() == Some(&'{') { it.next(); }
                while let Some(&h) = it.peek() { if h == '}' { it.next(); break; } hex.push(h); it.next(); }
                if let Some(ch) = u32::from_str_radix(&hex, 16).ok().and_then(char::from_u32) { out.push(ch); }
            }
            Some(o) => { out.push('\\'); out.push(o); }
            None => out.push('\\'),
        }
    }
    out
}

fn json(s: &str) -> String {
    let mut o = String::from("\"");
    for c in s.chars() {
        match c {
            '"' => o.push_str("\\\""),
            '\\' => o.push_str("\\\\"),
            '\n' => o.push_str("\\n"),
            '\r' => o.push_str("\\r"),
            '\t' => o.push_str("\\t"),
            c if (c as u32) < 0x20 => o.push_str(&format!("\\u{:04x}", c as u32)),
            c => o.push(c),
        }
    }
    o.push('"');
    o
}

fn show<T: std::fmt::Debug>(r: std::thread::Result<errors::Result<T>>, to_s: fn(&T) -> String) {
    let out = std::io::stdout();
    let mut out = out.lock();
    match r {
        Ok(Ok(v)) => writeln!(out, "OK {}", json(&to_s(&v))).unwrap(),
        Ok(Err(e)) => writeln!(out, "ERR {}", json(&errors_to_string(&e))).unwrap(),
        Err(p) => {
            let msg = if let Some(s) = p.downcast_ref::<&str>() { s.to_string() }
                      else if let Some(s) = p.downcast_ref::<String>() { s.clone() } else { "?".to_string() };
            writeln!(out, "PANIC {}", json(&msg)).unwrap()
        }
    }
    out.flush().unwrap();
}

fn s_string(s: &String) -> String { s.clone() }
fn s_unit(_: &()) -> String { String::new() }
fn s_su(p: &(String, usize)) -> String { format!("{}\t{}", p.0, p.1) }
fn s_uu(p: &(usize, usize)) -> String { format!("{}\t{}", p.0, p.1) }

fn main() {
    if std::env::var("MCPROBE_LOC").is_ok() {
        std::panic::set_hook(Box::new(|i| { if let Some(l) = i.location() { eprintln!("PANIC-AT {}:{}", l.file(), l.line()); } }));
    } else {
        std::panic::set_hook(Box::new(|_| {}));
    }
    let rules = std::env::var("MCPROBE_RULES").unwrap_or_else(|_| "/repo/Rules".to_string());
    let stdin = std::io::stdin();
    let mut rules_set = false;
    for line in stdin.lock().lines() {
        let line = line.unwrap();
        let line = line.trim_end_matches(['\r', '\n']);
        if line.is_empty() || line.starts_with('#') { continue; }
        let (cmd, rest) = match line.find(' ') { Some(i) => (&line[..i], &line[i + 1..]), None => (line, "") };
        let rest_s = unescape(rest);
        if !rules_set && cmd != "norules" {
            set_rules_dir(rules.clone()).unwrap();
            rules_set = true;
        }
        use std::panic::catch_unwind as cu;
        match cmd {
            "norules" => { rules_set = true; println!("OK \"\""); }
            "rulesdir" => show(cu(|| set_rules_dir(rest_s.clone())), s_unit),
            "mathml" => show(cu(|| set_mathml(rest_s.clone())), s_string),
            "nav" => show(cu(|| do_navigate_command(rest_s.clone())), s_string),
            "key" => {
                let p: Vec<usize> = rest.split(' ').map(|x| x.parse().unwrap()).collect();
                show(cu(|| do_navigate_keypress(p[0], p[1] != 0, p[2] != 0, p[3] != 0, p[4] != 0)), s_string)
            }
            "pref" => {
                let (n, v) = match rest_s.find(' ') { Some(i) => (rest_s[..i].to_string(), rest_s[i + 1..].to_string()), None => (rest_s.clone(), "".to_string()) };
                show(cu(|| set_preference(n.clone(), v.clone())), s_unit)
            }
            "getpref" => show(cu(|| get_preference(rest_s.clone())), s_string),
            "speech" => show(cu(get_spoken_text), s_string),
            "overview" => show(cu(get_overview_text), s_string),
            "braille" => show(cu(|| get_braille(rest_s.clone())), s_string),
            "navid" => show(cu(get_navigation_mathml_id), s_su),
            "navmathml" => show(cu(get_navigation_mathml), s_su),
            "navbraille" => show(cu(get_navigation_braille), s_string),
            "brpos" => show(cu(get_braille_position), s_uu),
            "nodeat" => { let p: usize = rest.trim().parse().unwrap(); show(cu(|| get_navigation_node_from_braille_position(p)), s_su) }
            "setnav" => {
                let (n, v) = match rest_s.rfind(' ') { Some(i) => (rest_s[..i].to_string(), rest_s[i + 1..].parse::<usize>().unwrap_or(0)), None => (rest_s.clone(), 0) };
                show(cu(|| set_navigation_node(n.clone(), v)), s_unit)
            }
            _ => println!("ERR \"unknown mcprobe command\""),
        }
    }
}
