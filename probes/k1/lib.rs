#![feature(pattern)]

const OPTIONAL_INDICATOR: &str  = "\u{F8FD}";
const OPTIONAL_INDICATOR_LEN: usize = OPTIONAL_INDICATOR.len();
        fn is_repetitive<'a>(prev: &str, optional: &'a str) -> Option<&'a str> {
            // OPTIONAL_INDICATOR surrounds the optional text
            // minor optimization -- lots of short strings and the OPTIONAL_INDICATOR takes a few bytes, so skip the check for those strings
            if optional.len() <=  2 * OPTIONAL_INDICATOR_LEN {
                return None;
            }
            
            // should be exactly one match -- ignore more than one for now
            match optional.find(OPTIONAL_INDICATOR) {
                None => return None,
                Some(start_index) => {
                    let optional_word_start_slice = &optional[start_index + OPTIONAL_INDICATOR_LEN..];
                    // now find the end
                    match optional_word_start_slice.find(OPTIONAL_INDICATOR) {
                        None => panic!("Internal error: missing end optional char -- text handling is corrupted!"),
                        Some(end_index) => {
                            let optional_word = &optional_word_start_slice[..end_index];
                            // debug!("check if '{}' is repetitive",  optional_word);
                            // debug!("   prev: '{}', next '{}'", prev, optional);
                            let prev = prev.trim_end().as_bytes();
                            if prev.len() > optional_word.len() &&
                               &prev[prev.len()-optional_word.len()..] == optional_word.as_bytes() {
                                return Some( optional_word_start_slice[optional_word.len() + OPTIONAL_INDICATOR_LEN..].trim_start() );
                            } else {
                                return None;
                            }
                        }
                    }
                }
            }
        }


pub mod stubs {
    use core::str::pattern::Pattern;
    pub fn trim_end(s: &str) -> &str {
        let b = s.as_bytes(); let mut n = b.len();
        while n > 0 && b[n-1] == b' ' { n -= 1; }
        unsafe { std::str::from_utf8_unchecked(&b[..n]) }
    }
    pub fn trim_start(s: &str) -> &str {
        let b = s.as_bytes(); let mut n = 0;
        while n < b.len() && b[n] == b' ' { n += 1; }
        unsafe { std::str::from_utf8_unchecked(&b[n..]) }
    }
    pub fn find<P: Pattern>(s: &str, pat: P) -> Option<usize> {
        assert!(core::mem::size_of::<P>() == core::mem::size_of::<&str>());
        let pat: &str = unsafe { core::mem::transmute_copy::<P, &str>(&pat) };
        core::mem::forget(pat);
        let b = s.as_bytes(); let p = pat.as_bytes();
        if p.len() > b.len() { return None; }
        let mut i = 0;
        while i + p.len() <= b.len() {
            let mut j = 0; let mut ok = true;
            while j < p.len() { if b[i+j] != p[j] { ok = false; break; } j += 1; }
            if ok { return Some(i); }
            i += 1;
        }
        None
    }
}

#[cfg(kani)]
mod h {
    use super::*;
    const N: usize = 4;   // tokens per string
    fn build(buf: &mut [u8; 3*N]) -> usize {
        let mut len = 0;
        let ntok: usize = kani::any();
        kani::assume(ntok <= N);
        let mut t = 0;
        while t < N {
            if t < ntok {
                let k: u8 = kani::any();
                kani::assume(k < 4);
                match k {
                    0 => { buf[len] = b'a'; len += 1; }
                    1 => { buf[len] = b'b'; len += 1; }
                    2 => { buf[len] = b' '; len += 1; }
                    _ => { buf[len] = 0xEF; buf[len+1] = 0xA3; buf[len+2] = 0xBD; len += 3; }
                }
            }
            t += 1;
        }
        len
    }
    #[kani::proof]
    #[kani::unwind(14)]
    #[kani::stub(str::trim_end, stubs::trim_end)]
    #[kani::stub(str::trim_start, stubs::trim_start)]
    #[kani::stub(str::find, stubs::find)]
    fn prefix_preserved() {
        let mut b1 = [0u8; 3*N];
        let mut b2 = [0u8; 3*N];
        let l1 = build(&mut b1);
        let l2 = build(&mut b2);
        let prev = unsafe { std::str::from_utf8_unchecked(&b1[..l1]) };
        let optional = unsafe { std::str::from_utf8_unchecked(&b2[..l2]) };
        // precondition: markers come in pairs (exactly 0 or 2 in 'optional')
        let mut n_ind = 0; let mut i = 0;
        while i + 2 < l2 { if b2[i]==0xEF && b2[i+1]==0xA3 && b2[i+2]==0xBD { n_ind += 1; } i += 1; }
        kani::assume(n_ind == 0 || n_ind == 2);
        if let Some(r) = is_repetitive(prev, optional) {
            // lemma: whatever precedes the first marker must survive
            let start = optional.find(OPTIONAL_INDICATOR).unwrap();
            kani::cover!(start > 0, "marker in the middle reachable");
            assert!(start == 0 || r.len() >= start, "text before optional marker dropped");
        }
    }
}
