import sys, subprocess, time
sys.path.insert(0,'/verif/lib')
from smt_run import smt_str
N=int(sys.argv[1])
def stage(k, pat, rep, N):
    """X{k+1} = replace_all(X{k}, pat, rep)  for |X{k}| <= N;  pat: list of alternatives? here: a literal string or a set of chars"""
    x="X%d"%k; out=[]
    m = len(pat) if isinstance(pat,str) else 1
    out.append("(define-fun sk%d_0 () Int 0)"%k)
    parts=[]
    for i in range(N):
        if isinstance(pat,str):
            cond=" ".join("(= (str.at %s %d) %s)"%(x,i+j,smt_str(pat[j])) for j in range(m))
            cond="(and (<= %d (str.len %s)) %s)"%(i+m,x,cond)
        else:
            cond="(or %s)"%" ".join("(= (str.at %s %d) %s)"%(x,i,smt_str(c)) for c in pat)
        out.append("(define-fun m%d_%d () Bool (and (= sk%d_%d 0) %s))"%(k,i,k,i,cond))
        out.append("(define-fun sk%d_%d () Int (ite m%d_%d %d (ite (> sk%d_%d 0) (- sk%d_%d 1) 0)))"%(k,i+1,k,i,m-1,k,i,k,i))
        parts.append("(ite m%d_%d %s (ite (> sk%d_%d 0) \"\" (str.at %s %d)))"%(k,i,smt_str(rep),k,i,x,i))
    out.append("(define-fun X%d () String (str.++ %s))"%(k+1," ".join(parts)))
    return "\n".join(out)
q=["(declare-const X0 String)","(assert (<= (str.len X0) %d))"%N]
q.append(stage(0," ","",N)); q.append(stage(1,"","",N)); q.append(stage(2,"","",N))
bad = sys.argv[2] if len(sys.argv)>2 else "ok"
q.append("(assert (or (str.contains X3 %s) (str.contains X3 %s)))"%(smt_str(""),smt_str("")))
q.append("(check-sat)")
open('/tmp/chain.smt2','w').write("\n".join(q))
for sv in (["z3-new","-T:120"],["/usr/bin/z3","-T:120"],["cvc5","--lang","smt2","--strings-exp","--tlimit=120000"]):
    t=time.time(); p=subprocess.run(sv+["/tmp/chain.smt2"],capture_output=True,text=True); print(sv[0],p.stdout.strip()[:200],round(time.time()-t,2))
