"""experiment: merge_pauses_none verbatim under Kani, symbolic input string"""
import sys, os
sys.path.insert(0, "/verif/lib")
import kani_run, prelude, slicer, rxsmt, tables
N = int(sys.argv[1]) if len(sys.argv) > 1 else 4
tts = slicer.Source.get("src/tts.rs")
f = tts.find("impl TTS", "fn merge_pauses_none")
pat, _ = tables.lazy_regex(tts, "MULTIPLE_PAUSES", within=f)
EXTRA = r'''
#[cfg(kani)] macro_rules! lazy_static { ($($t:tt)*) => {}; }
#[cfg(not(kani))] use lazy_static::lazy_static;
#[cfg(not(kani))] use regex::Regex;
pub enum TTS { None }
impl TTS {
FN
}
#[cfg(kani)]
pub mod sstubs {
    pub const RCAP: usize = 16;
    pub fn replace<P: core::str::pattern::Pattern>(s: &str, from: P, to: &str) -> String {
        assert!(core::mem::size_of::<P>() == core::mem::size_of::<&str>());
        let from: &str = unsafe { core::mem::transmute_copy::<P, &str>(&from) };
        let (b, f, t) = (s.as_bytes(), from.as_bytes(), to.as_bytes());
        let mut out = [0u8; RCAP]; let mut n = 0; let mut i = 0;
        assert!(f.len() > 0);
        while i < b.len() {
            let mut ok = i + f.len() <= b.len();
            let mut j = 0;
            while ok && j < f.len() { if b[i + j] != f[j] { ok = false; } j += 1; }
            if ok { let mut k = 0; while k < t.len() { out[n] = t[k]; n += 1; k += 1; } i += f.len(); }
            else { out[n] = b[i]; n += 1; i += 1; }
        }
        String::from(unsafe { core::str::from_utf8_unchecked(&out[..n]) })
    }
    pub fn to_string<T: core::fmt::Display + ?Sized>(v: &T) -> String {
        let n = core::mem::size_of_val(v);
        let b = unsafe { core::slice::from_raw_parts(v as *const T as *const u8, n) };
        String::from(unsafe { core::str::from_utf8_unchecked(b) })
    }
}
HARNESS(merge_none_keeps_words, UNW, [str::replace => sstubs::replace, std::string::ToString::to_string => sstubs::to_string]) {
    let mut b = [0u8; NB];
    let len = sym::below(NB + 1);
    let mut i = 0;
    while i < NB { b[i] = match sym::below(4) { 0 => b'a', 1 => b',', 2 => b';', _ => b' ' }; i += 1; }
    let s = unsafe { core::str::from_utf8_unchecked(&b[..len]) };
    let r = TTS::None.merge_pauses_none(s);
    let rb = r.as_bytes();
    // words (everything that is not a pause mark) are the same, in order
    let mut i = 0; let mut j = 0;
    loop {
        while i < len && (b[i] == b',' || b[i] == b';') { i += 1; }
        while j < rb.len() && (rb[j] == b',' || rb[j] == b';') { j += 1; }
        if i >= len || j >= rb.len() { break; }
        assert!(b[i] == rb[j], "merge_pauses_none changed a character that is not a pause mark");
        i += 1; j += 1;
    }
    assert!(i >= len && j >= rb.len(), "merge_pauses_none dropped or added text");
    cover!(rb.len() < len, "something merged");
    core::mem::forget(r);
}
'''
body = rxsmt.mock_statics([("MULTIPLE_PAUSES", pat)]) + EXTRA.replace("FN", f.text).replace("NB", str(N)).replace("UNW", str(N + 3))
body = body.replace("#[cfg(not(kani))]\nlazy_static::lazy_static! {", "#[cfg(any())]\nlazy_static::lazy_static! {")
c = kani_run.Crate("mpnone", body, native_deps={"regex": '"1.10"', "lazy_static": '"1.4"'})
print(c.dir)
r = c.run("merge_none_keeps_words", timeout=600)
print({k: r[k] for k in ("status", "n_checks", "verification_time_s", "wall_s", "covers", "failed_checks")})
print(r.get("log_tail", "")[-3000:])
if os.environ.get("KEEP") is None: c.cleanup()
