pub fn my_trim_end(s: &str) -> &str {
    let b = s.as_bytes();
    let mut n = b.len();
    while n > 0 && b[n-1] == b' ' { n -= 1; }
    unsafe { std::str::from_utf8_unchecked(&b[..n]) }
}
pub fn my_find(s: &str, pat: &str) -> Option<usize> {
    let b = s.as_bytes(); let p = pat.as_bytes();
    if p.len() > b.len() { return None; }
    let mut i = 0;
    while i + p.len() <= b.len() {
        let mut j = 0; let mut ok = true;
        while j < p.len() { if b[i+j] != p[j] { ok = false; break; } j += 1; }
        if ok { return Some(i); }
        i += 1;
    }
    None
}
fn target(s: &str) -> usize {
    let t = s.trim_end();
    match t.find("ab") { Some(i) => i, None => t.len() }
}
#[cfg(kani)]
#[kani::proof]
#[kani::unwind(8)]
#[kani::stub(str::trim_end, my_trim_end)]
fn stub_test() {
    let b: [u8; 5] = kani::any();
    kani::assume(b[0] < 128 && b[1] < 128 && b[2] < 128 && b[3] < 128 && b[4] < 128);
    let s = unsafe { std::str::from_utf8_unchecked(&b) };
    let r = target(s);
    assert!(r <= 5);
}
