use libmathcat::*;
use std::io::BufRead;
fn show<T: std::fmt::Debug>(what: &str, r: std::thread::Result<errors::Result<T>>) {
    match r {
        Ok(Ok(v)) => println!("{} => Ok({:?})", what, v),
        Ok(Err(e)) => println!("{} => Err({})", what, errors_to_string(&e).replace('\n', " | ")),
        Err(_) => println!("{} => PANIC", what),
    }
}
fn main() {
    set_rules_dir("/repo/Rules".to_string()).unwrap();
    let stdin = std::io::stdin();
    for line in stdin.lock().lines() {
        let line = line.unwrap();
        let line = line.trim();
        if line.is_empty() || line.starts_with('#') { continue; }
        let (cmd, rest) = match line.find(' ') { Some(i) => (&line[..i], line[i+1..].trim()), None => (line, "") };
        let rest_s = rest.to_string();
        match cmd {
            "mathml" => show(line, std::panic::catch_unwind(|| set_mathml(rest_s.clone()))),
            "nav" => show(line, std::panic::catch_unwind(|| do_navigate_command(rest_s.clone()))),
            "key" => { let p: Vec<usize> = rest.split(' ').map(|x| x.parse().unwrap()).collect();
                       show(line, std::panic::catch_unwind(|| do_navigate_keypress(p[0], p[1]!=0, p[2]!=0, p[3]!=0, p[4]!=0))) },
            "pref" => { let (n, v) = match rest.find(' ') { Some(i) => (rest[..i].to_string(), rest[i+1..].to_string()), None => (rest.to_string(), "".to_string()) };
                        show(line, std::panic::catch_unwind(|| set_preference(n.clone(), v.clone()))) },
            "getpref" => show(line, std::panic::catch_unwind(|| get_preference(rest_s.clone()))),
            "speech" => show(line, std::panic::catch_unwind(|| get_spoken_text())),
            "overview" => show(line, std::panic::catch_unwind(|| get_overview_text())),
            "braille" => show(line, std::panic::catch_unwind(|| get_braille(rest_s.clone()))),
            "navid" => show(line, std::panic::catch_unwind(|| get_navigation_mathml_id())),
            "navmathml" => show(line, std::panic::catch_unwind(|| get_navigation_mathml())),
            "navbraille" => show(line, std::panic::catch_unwind(|| get_navigation_braille())),
            "brpos" => show(line, std::panic::catch_unwind(|| get_braille_position())),
            "nodeat" => { let p: usize = rest.parse().unwrap(); show(line, std::panic::catch_unwind(|| get_navigation_node_from_braille_position(p))) },
            "setnav" => { let (n, v) = match rest.find(' ') { Some(i) => (rest[..i].to_string(), rest[i+1..].parse::<usize>().unwrap()), None => (rest.to_string(), 0) };
                          show(line, std::panic::catch_unwind(|| set_navigation_node(n.clone(), v))) },
            _ => println!("?? {}", line),
        }
    }
}
