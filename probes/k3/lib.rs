
#[macro_use] extern crate log;
use phf::phf_set;
fn capitals_to_word_mode(braille: &str) -> String {
    use std::iter::FromIterator;
    // debug!("before capitals fix:  '{}'", braille);

    let mut result = "".to_string();
    let chars = braille.chars().collect::<Vec<char>>();
    let mut is_word_mode = false;
    let mut i = 0;
    // look for a sequence of CLxCLy... and create CCLxLy...
    while i < chars.len() {
        let ch = chars[i];
        if ch == 'C' {
            // '𝑐' should only occur after a 'C', so we don't have top-level check for it
            let mut next_non_cap = i+1;
            while let Some(i_next) = find_next_char(&chars[next_non_cap..], '𝑐') {
                next_non_cap += i_next + 1; // C/𝑐, L, letter
            }
            if find_next_char(&chars[next_non_cap..], 'C').is_some() { // next letter sequence "C..."
                if is_next_char_start_of_section_12_modifier(&chars[next_non_cap+1..]) {
                    // to me this is tricky -- section 12 modifiers apply to the previous item
                    // the last clause of the "item" def is the previous adividual symbol" which ICEB 2.1 say is:
                    //   braille sign: one or more consecutive braille characters comprising a unit,
                    //     consisting of a root on its own or a root preceded by one or more
                    //     prefixes (also referred to as braille symbol)
                    // this means the capital indicator needs to be stated and can't be part of a word or passage
                    is_word_mode = false;
                    result.push_str(String::from_iter(&chars[i..next_non_cap]).as_str());
                    i = next_non_cap;
                    continue;
                }
                if is_word_mode {
                    i += 1;     // skip the 'C'
                } else {
                    // start word mode -- need an extra 'C'
                    result.push('C');
                    is_word_mode = true;
                }
            } else if is_word_mode {
                i += 1;         // skip the 'C'
            }
            if chars[next_non_cap] == 'G' {
                // Greek letters are a bit exceptional in that the pattern is "CGLx" -- bump 'i'
                next_non_cap += 1;
            }
            if chars[next_non_cap] != 'L' {
                error!("capitals_to_word_mode: internal error: didn't find L after C in '{}'.",
                       chars[i..next_non_cap+2].iter().collect::<String>().as_str());
            }
            let i_braille_char = next_non_cap + 2;
            result.push_str(String::from_iter(&chars[i..i_braille_char]).as_str());
            i = i_braille_char;
        } else if ch == 'L' {       // must be lowercase -- uppercase consumed above
            // assert!(LETTERS.contains(&unhighlight(chars[i+1]))); not true for other alphabets
            if is_word_mode {
                result.push('e');       // terminate Word mode (letter after caps)
                is_word_mode = false;
            }
            result.push('L');
            result.push(chars[i+1]);
            i += 2; // eat L, letter
        } else {
            is_word_mode = false;   // non-letters terminate cap word mode
            result.push(ch);
            i += 1;
        }
    }
    return result;

    fn is_next_char_start_of_section_12_modifier(chars: &[char]) -> bool {
        // first find the L and eat the char so that we are at the potential start of where the target lies
        let chars_len = chars.len();
        let mut i_cap = 0;
        while chars[i_cap] != 'C' {     // we know 'C' is in the string, so no need to check for exceeding chars_len
            i_cap += 1;
        }
        for i_end in i_cap+1..chars_len {
            if chars[i_end] == 'L' {
                // skip the next char to get to the real start, and then look for the modifier string or next L/N
                // debug!("   after L '{}'", chars[i_end+2..].iter().collect::<String>());
                for i in i_end+2..chars_len {
                    let ch = chars[i];
                    if ch == '1' {
                        // Fix: there's probably a much better way to check if we have a match against one of "⠱", "⠘⠱", "⠘⠲", "⠸⠱", "⠐⠱ ", "⠨⠸⠱"
                        if chars[i+1] == '⠱' {
                            return true;
                        } else if i+2 < chars_len {
                            let mut str = chars[i+1].to_string();
                            str.push(chars[i+2]);
                            if str == "⠘⠱" || str == "⠘⠲" || str == "⠸⠱" || str == "⠐⠱" {
                                return true;
                            } else if i+3 < chars_len {
                                str.push(chars[i+3]);
                                return str == "⠨⠸⠱";
                            }
                            return false;
                        }
                    }
                    if ch == 'L' || ch == 'N' || !LETTER_PREFIXES.contains(&ch) {
                        return false;
                    }
                }
            }
        }
        return false;
    }    
}
fn find_next_char(chars: &[char], target: char) -> Option<usize> {        
    // first find the L or N and eat the char so that we are at the potential start of where the target lies
    // debug!("Looking for '{}' in '{}'", target, chars.iter().collect::<String>());
    for i_end in 0..chars.len() {
        if chars[i_end] == 'L' || chars[i_end] == 'N' {
            // skip the next char to get to the real start, and then look for the target
            // stop when L/N signals past potential target or we hit some non L/N char (actual braille)
            // debug!("   after L/N '{}'", chars[i_end+2..].iter().collect::<String>());
            for (i, &ch) in chars.iter().enumerate().skip(i_end+2) {
                if ch == 'L' || ch == 'N' || !LETTER_PREFIXES.contains(&ch) {
                    return None;
                } else if ch == target {
                    // debug!("   found target");
                    return Some(i);
                }
            }
        }
    }
    return None;
}
static LETTER_PREFIXES: phf::Set<char> = phf_set! {
    'B', 'I', '𝔹', 'S', 'T', 'D', 'C', '𝐶', '𝑐',
};

#[cfg(kani)]
mod h {
    use super::*;
    const N: usize = 4;
    // raw-braille tokens: C, L, G, W, N, braille cell U+2801 (E2 A0 81)
    #[kani::proof]
    #[kani::unwind(14)]
    fn caps_no_panic_and_cells_kept() {
        let mut buf = [0u8; 3*N];
        let mut len = 0usize;
        let n: usize = kani::any();
        kani::assume(n <= N);
        let mut cells_in = 0usize;
        let mut prev_needs_cell = false;
        let mut i = 0;
        while i < N {
            if i < n {
                let k: u8 = kani::any();
                kani::assume(k < 6);
                if prev_needs_cell { kani::assume(k == 5); }
                match k {
                    0 => { buf[len] = b'C'; len += 1; }
                    1 => { buf[len] = b'L'; len += 1; }
                    2 => { buf[len] = b'G'; len += 1; }
                    3 => { buf[len] = b'W'; len += 1; }
                    4 => { buf[len] = b'N'; len += 1; }
                    _ => { buf[len] = 0xE2; buf[len+1] = 0xA0; buf[len+2] = 0x81; len += 3; cells_in += 1; }
                }
                prev_needs_cell = k == 1 || k == 4;
            }
            i += 1;
        }
        kani::assume(!prev_needs_cell);
        let s = unsafe { std::str::from_utf8_unchecked(&buf[..len]) };
        let out = capitals_to_word_mode(s);
        let ob = out.as_bytes();
        let mut cells_out = 0usize; let mut j = 0;
        while j + 2 < ob.len() { if ob[j] == 0xE2 && ob[j+1] == 0xA0 && ob[j+2] == 0x81 { cells_out += 1; } j += 1; }
        assert!(cells_out == cells_in);
    }
}
