
mod dom;
pub mod sxd_document { pub use crate::dom::QName; pub mod dom { pub use crate::dom::*; } }
use crate::dom::*;
struct CanonicalizeContext;
impl CanonicalizeContext {
fn create_empty_element<'a>(doc: &Document<'a>) -> Element<'a> {
		let mtext = create_mathml_element(doc, "mtext");
		mtext.set_text("\u{00A0}");
		mtext.set_attribute_value("data-added", "missing-content");
		mtext.set_attribute_value("data-width", "0");
		return mtext;
	}
}
fn clean_mmultiscripts(mathml: Element) -> Option<Element> {
			let mut mathml = mathml;
			let children = mathml.children();
			let n = children.len();
			let i_mprescripts =
				if let Some((i,_)) = children.iter().enumerate()
					.find(|(_,&el)| name(&as_element(el)) == "mprescripts") { i } else { n };
			let has_misplaced_mprescripts = i_mprescripts & 1 == 0;  // should be first, third, ... child
			let mut has_proper_number_of_children = if i_mprescripts == n { n & 1 == 0} else { n & 1 != 0 }; // should be odd else even #
			if has_misplaced_mprescripts || !has_proper_number_of_children || has_none_none_script_pair(&children) {
				// need to reset the children
				let mut new_children = Vec::with_capacity(n+2); // adjusting position of mprescripts might add two children
				new_children.push(children[0]);
				// drop none, none script pairs
				let mut i = 1;
				while i < n {
					let child = as_element(children[i]);
					let child_name = name(&child);
					if child_name == "mprescripts" {
						if has_misplaced_mprescripts {
							let mtext = CanonicalizeContext::create_empty_element(&mathml.document());
							new_children.push(ChildOfElement::Element(mtext));
							has_proper_number_of_children = !has_proper_number_of_children;
						}
						new_children.push(children[i]);
						i += 1;
					} else if i+1 < n && child_name == "none" && name(&as_element(children[i+1])) == "none" {
						i += 2;		// found none, none pair
					} else {
						// copy pair
						new_children.push(children[i]);
						new_children.push(children[i+1]);
						i += 2;
					}
				}
				if new_children.len() == 1 {
					mathml = as_element(new_children[0]);
				} else {
					mathml.replace_children(new_children);
				}
			}

			return Some(mathml);

			fn has_none_none_script_pair(children: &[ChildOfElement]) -> bool {
				let mut i = 1;
				let n = children.len();
				while i < n {
					let child = as_element(children[i]);
					let child_name = name(&child);
					if child_name == "mprescripts" {
						i += 1;
					} else if i+1 < n && child_name == "none" && name(&as_element(children[i+1])) == "none" {
						return true;		// found none, none pair
					} else {
						i += 2;
					}
				}
				return false;
			}
		}
pub fn create_mathml_element<'a>(doc: &Document<'a>, name: &str) -> Element<'a> {
	return doc.create_element(sxd_document::QName::with_namespace_uri(
		Some("http://www.w3.org/1998/Math/MathML"),
		name));
}
pub fn name<'a>(node: &'a Element<'a>) -> &'a str {
	return node.name().local_part();
}
pub fn as_element(child: ChildOfElement) -> Element {
	return match child {
		ChildOfElement::Element(e) => e,
		_ => {
			panic!("as_element: internal error -- found non-element child (text? '{:?}')", child.text());
		},
	};
}

#[cfg(kani)]
mod h {
    use super::*;
    const N: usize = 5;
    #[kani::proof]
    #[kani::unwind(14)]
    fn mmultiscripts_no_panic() {
        let package = Package::new();
        let doc = package.as_document();
        let mm = doc.create_element("mmultiscripts");
        let n: usize = kani::any();
        kani::assume(n >= 1 && n <= N);
        let mut i = 0;
        while i < N {
            if i < n {
                let k: u8 = kani::any();
                kani::assume(k < 3);
                let tag = match k { 0 => "mi", 1 => "none", _ => "mprescripts" };
                kani::assume(i > 0 || k == 0);
                mm.append_child(doc.create_element(tag));
            }
            i += 1;
        }
        let r = clean_mmultiscripts(mm);
        assert!(r.is_some());
    }
}
