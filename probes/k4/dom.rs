// Minimal model of the part of sxd_document::dom that MathCAT uses (probe version)
use std::cell::RefCell;

pub struct QName<'s> { local: &'s str }
impl<'s> QName<'s> {
    pub fn with_namespace_uri(_ns: Option<&'s str>, local: &'s str) -> QName<'s> { QName { local } }
    pub fn local_part(&self) -> &'s str { self.local }
}
impl<'s> From<&'s str> for QName<'s> { fn from(s: &'s str) -> QName<'s> { QName { local: s } } }

pub const MAXN: usize = 24;
#[derive(Clone)]
pub struct NodeData {
    pub is_text: bool,
    pub name: &'static str,          // element name, or text content for text nodes
    pub parent: Option<usize>,
    pub children: Vec<usize>,
    pub attrs: Vec<(&'static str, &'static str)>,
}
pub struct Storage { pub nodes: RefCell<Vec<NodeData>> }
pub struct Package { storage: Storage }
impl Package {
    pub fn new() -> Package { Package { storage: Storage { nodes: RefCell::new(Vec::with_capacity(MAXN)) } } }
    pub fn as_document(&self) -> Document<'_> { Document { st: &self.storage } }
}
fn leak(s: &str) -> &'static str { Box::leak(s.to_string().into_boxed_str()) }

#[derive(Clone, Copy)]
pub struct Document<'d> { st: &'d Storage }
impl<'d> Document<'d> {
    pub fn create_element<'n, N: Into<QName<'n>>>(&self, name: N) -> Element<'d> {
        let q = name.into();
        let mut nodes = self.st.nodes.borrow_mut();
        nodes.push(NodeData { is_text: false, name: leak(q.local), parent: None, children: Vec::new(), attrs: Vec::new() });
        Element { id: nodes.len() - 1, st: self.st }
    }
    pub fn create_text(&self, text: &str) -> Text<'d> {
        let mut nodes = self.st.nodes.borrow_mut();
        nodes.push(NodeData { is_text: true, name: leak(text), parent: None, children: Vec::new(), attrs: Vec::new() });
        Text { id: nodes.len() - 1, st: self.st }
    }
}
#[derive(Clone, Copy)]
pub struct Element<'d> { pub id: usize, st: &'d Storage }
#[derive(Clone, Copy)]
pub struct Text<'d> { pub id: usize, st: &'d Storage }
impl<'d> std::fmt::Debug for Text<'d> { fn fmt(&self, _f: &mut std::fmt::Formatter) -> std::fmt::Result { Ok(()) } }
impl<'d> std::fmt::Debug for Element<'d> { fn fmt(&self, _f: &mut std::fmt::Formatter) -> std::fmt::Result { Ok(()) } }
impl<'d> PartialEq for Element<'d> { fn eq(&self, o: &Self) -> bool { self.id == o.id } }
impl<'d> PartialEq for Text<'d> { fn eq(&self, o: &Self) -> bool { self.id == o.id } }
impl<'d> Text<'d> { pub fn text(&self) -> &'d str { self.st.nodes.borrow()[self.id].name } }

#[derive(Clone, Copy, PartialEq)]
pub enum ChildOfElement<'d> { Element(Element<'d>), Text(Text<'d>) }
impl<'d> ChildOfElement<'d> {
    pub fn element(&self) -> Option<Element<'d>> { match self { ChildOfElement::Element(e) => Some(*e), _ => None } }
    pub fn text(&self) -> Option<Text<'d>> { match self { ChildOfElement::Text(t) => Some(*t), _ => None } }
    fn id(&self) -> usize { match self { ChildOfElement::Element(e) => e.id, ChildOfElement::Text(t) => t.id } }
}
impl<'d> From<Element<'d>> for ChildOfElement<'d> { fn from(e: Element<'d>) -> Self { ChildOfElement::Element(e) } }
impl<'d> From<Text<'d>> for ChildOfElement<'d> { fn from(e: Text<'d>) -> Self { ChildOfElement::Text(e) } }
#[derive(Clone, Copy, PartialEq)]
pub enum ParentOfChild<'d> { Element(Element<'d>), Root }
impl<'d> ParentOfChild<'d> { pub fn element(&self) -> Option<Element<'d>> { match self { ParentOfChild::Element(e) => Some(*e), _ => None } } }

impl<'d> Element<'d> {
    pub fn document(&self) -> Document<'d> { Document { st: self.st } }
    pub fn name(&self) -> QName<'d> { QName { local: self.st.nodes.borrow()[self.id].name } }
    pub fn set_name<'n, N: Into<QName<'n>>>(&self, name: N) { let q = name.into(); self.st.nodes.borrow_mut()[self.id].name = leak(q.local); }
    pub fn parent(&self) -> Option<ParentOfChild<'d>> {
        self.st.nodes.borrow()[self.id].parent.map(|p| ParentOfChild::Element(Element { id: p, st: self.st }))
    }
    fn wrap(&self, id: usize) -> ChildOfElement<'d> {
        if self.st.nodes.borrow()[id].is_text { ChildOfElement::Text(Text { id, st: self.st }) } else { ChildOfElement::Element(Element { id, st: self.st }) }
    }
    pub fn children(&self) -> Vec<ChildOfElement<'d>> {
        let ids: Vec<usize> = self.st.nodes.borrow()[self.id].children.clone();
        let mut v = Vec::with_capacity(ids.len());
        for id in ids { v.push(self.wrap(id)); }
        v
    }
    fn detach(&self, id: usize) {
        let p = self.st.nodes.borrow()[id].parent;
        if let Some(p) = p {
            let mut nodes = self.st.nodes.borrow_mut();
            let ch = &mut nodes[p].children;
            let mut i = 0;
            while i < ch.len() { if ch[i] == id { ch.remove(i); } else { i += 1; } }
            nodes[id].parent = None;
        }
    }
    pub fn append_child<C: Into<ChildOfElement<'d>>>(&self, child: C) {
        let id = child.into().id();
        self.detach(id);
        let mut nodes = self.st.nodes.borrow_mut();
        nodes[self.id].children.push(id);
        nodes[id].parent = Some(self.id);
    }
    pub fn append_children<I>(&self, children: I) where I: IntoIterator, I::Item: Into<ChildOfElement<'d>> {
        for c in children { self.append_child(c); }
    }
    pub fn clear_children(&self) {
        let ids: Vec<usize> = self.st.nodes.borrow()[self.id].children.clone();
        let mut nodes = self.st.nodes.borrow_mut();
        for id in ids { nodes[id].parent = None; }
        nodes[self.id].children.clear();
    }
    pub fn replace_children<I>(&self, children: I) where I: IntoIterator, I::Item: Into<ChildOfElement<'d>> {
        self.clear_children();
        self.append_children(children);
    }
    pub fn remove_child<C: Into<ChildOfElement<'d>>>(&self, child: C) { let id = child.into().id(); self.detach(id); }
    pub fn remove_from_parent(&self) { self.detach(self.id); }
    pub fn set_text(&self, text: &str) -> Text<'d> {
        let t = self.document().create_text(text);
        self.clear_children();
        self.append_child(t);
        t
    }
    pub fn attribute_value(&self, name: &str) -> Option<&'d str> {
        let nodes = self.st.nodes.borrow();
        for (n, v) in nodes[self.id].attrs.iter() { if *n == name { return Some(*v); } }
        None
    }
    pub fn set_attribute_value(&self, name: &str, value: &str) {
        let mut nodes = self.st.nodes.borrow_mut();
        for a in nodes[self.id].attrs.iter_mut() { if a.0 == name { a.1 = leak(value); return; } }
        nodes[self.id].attrs.push((leak(name), leak(value)));
    }
}
