#![allow(dead_code, unused)]
#[macro_use] extern crate error_chain;
pub mod errors { error_chain! { } }
use crate::errors::*;
use phf::{phf_map, phf_set};
const VK_LEFT: usize = 0x25;
const VK_RIGHT: usize = 0x27;
const VK_UP: usize = 0x26;
const VK_DOWN: usize = 0x28;
const VK_RETURN: usize = 0x0D;
const VK_SPACE: usize = 0x20;
const VK_HOME: usize = 0x24;
const VK_END: usize = 0x23;
const VK_BACK: usize = 0x08;
const VK_ESCAPE: usize = 0x1B;
enum NavigationCommand {
    Move,
    Zoom,
    MoveLastLocation,
    Read,
    Describe,
    ReadTo,
    Locate,
    ChangeNavMode,
    ToggleSpeakMode,
    SetPlacemarker,
    Exit,
    Last,
}
#[derive(PartialEq, PartialOrd, Clone, Copy)]
enum NavigationParam {
    Placemarker0,
    Placemarker1,
    Placemarker2,
    Placemarker3,
    Placemarker4,
    Placemarker5,
    Placemarker6,
    Placemarker7,
    Placemarker8,
    Placemarker9,
    Previous,
    Current,
    Next,
    Start,
    End,
    LineStart,
    LineEnd,
    CellPrevious,
    CellCurrent,
    CellNext,
    ColStart,
    ColEnd,
    CellUp,
    CellDown,
    Last 
}
fn choose_command(
	shift_key: bool,
	control_key: bool,
	none: NavigationCommand,
	shift: NavigationCommand,
	control: NavigationCommand,
	shift_control: NavigationCommand
) -> NavigationCommand {
	   if shift_key && control_key {
		return shift_control;
    } else if control_key {
        return control;
    } else if shift_key {
		return shift;
	} else {
		return none;
    }
}
fn choose_param(
	shift_key: bool,
	control_key: bool,
	none: NavigationParam,
	shift: NavigationParam,
	control: NavigationParam,
	shift_control: NavigationParam
) -> NavigationParam {
    if shift_key && control_key {
		return shift_control;
    } else if control_key {
        return control;
    } else if shift_key {
		return shift;
	} else {
		return none;
    }
}
fn key_press_to_command_and_param(
    key: usize,
	shift_key: bool,
	control_key: bool,
	alt_key: bool,
	meta_key: bool,
) -> Result<(NavigationCommand, NavigationParam)> {
	// key press mapping should probably be stored externally (registry) with an app that allows changes
	// for now, we build in the defaults

    // this is a hack to map alt+ctl+arrow to ctl+arrow to change table mappings (github.com/NSoiffer/MathCAT/issues/105)
    // if this change sticks, choose_command() needs to be changed and this hack should go away
    let mut alt_key = alt_key;
    if alt_key && control_key && [VK_LEFT, VK_RIGHT, VK_UP, VK_DOWN].contains(&key) {
        alt_key = false;
    }
	if alt_key || meta_key {
        bail!("Invalid argument to key_press_to_command_and_param");
    }

    let command;
    let param;
	match key {
        VK_LEFT => {
            command = choose_command(shift_key, control_key, NavigationCommand::Move,   NavigationCommand::Read,	NavigationCommand::Move,	   NavigationCommand::Describe);
            param =   choose_param(  shift_key, control_key, NavigationParam::Previous, NavigationParam::Previous, NavigationParam::CellPrevious, NavigationParam::Previous);
            },
        VK_RIGHT => {
            command = choose_command(shift_key, control_key, NavigationCommand::Move,	NavigationCommand::Read, NavigationCommand::Move,	  NavigationCommand::Describe);
            param =   choose_param(  shift_key, control_key, NavigationParam::Next, NavigationParam::Next, NavigationParam::CellNext, NavigationParam::Next);
            },
        VK_UP => {
            command = choose_command(shift_key, control_key, NavigationCommand::Zoom,      NavigationCommand::ChangeNavMode, NavigationCommand::Move,   NavigationCommand::Zoom);
            param =   choose_param(  shift_key, control_key, NavigationParam::Previous,  NavigationParam::Previous,      NavigationParam::CellUp, NavigationParam::Start);
            },
        VK_DOWN => {
            command = choose_command(shift_key, control_key, NavigationCommand::Zoom, NavigationCommand::ChangeNavMode, NavigationCommand::Move,     NavigationCommand::Zoom);
            param =   choose_param(  shift_key, control_key, NavigationParam::Next, NavigationParam::Next,          NavigationParam::CellDown, NavigationParam::End);
            },
        VK_RETURN => {
            command = choose_command(shift_key, control_key, NavigationCommand::Locate,  NavigationCommand::Last, NavigationCommand::Locate, NavigationCommand::Last);
            param =   choose_param(  shift_key, control_key, NavigationParam::Previous,NavigationParam::Last, NavigationParam::Last,    NavigationParam::Last);
            },
        VK_SPACE => {
            command = choose_command(shift_key, control_key, NavigationCommand::Read,		NavigationCommand::ToggleSpeakMode,    NavigationCommand::Read,        NavigationCommand::Describe);
            param =   choose_param(  shift_key, control_key, NavigationParam::Current, NavigationParam::Last,                NavigationParam::CellCurrent, NavigationParam::Current);
            },
    
        VK_HOME => {
            command = choose_command(shift_key, control_key, NavigationCommand::Move, NavigationCommand::Move,	   NavigationCommand::Move,      NavigationCommand::ReadTo);
            param =   choose_param(  shift_key, control_key, NavigationParam::Start,NavigationParam::ColStart, NavigationParam::LineStart, NavigationParam::Start);
            },
        VK_END => {
            command = choose_command(shift_key, control_key, NavigationCommand::Move, NavigationCommand::Move,   NavigationCommand::Move,    NavigationCommand::ReadTo);
            param =   choose_param(  shift_key, control_key, NavigationParam::End,  NavigationParam::ColEnd, NavigationParam::LineEnd, NavigationParam::End);
            },
        VK_BACK => {
            command = NavigationCommand::MoveLastLocation;
            param = NavigationParam::Last;
            },
        VK_ESCAPE => {
            command = NavigationCommand::Exit;
            param = NavigationParam::Last;
            },
        0x30..=0x39 => {  // '0' ... '9'
            command = choose_command(shift_key, control_key, NavigationCommand::Move, NavigationCommand::Read, NavigationCommand::SetPlacemarker, NavigationCommand::Describe);
            static PLACE_MARKER: &[NavigationParam] = &[
                NavigationParam::Placemarker0,
                NavigationParam::Placemarker1,
                NavigationParam::Placemarker2,
                NavigationParam::Placemarker3,
                NavigationParam::Placemarker4,
                NavigationParam::Placemarker5,
                NavigationParam::Placemarker6,
                NavigationParam::Placemarker7,
                NavigationParam::Placemarker8,
                NavigationParam::Placemarker9,
            ];
            param = PLACE_MARKER[key-0x30];
        },
        _ => bail!("Unknown key press/command"),
    };
    
	return Ok( (command, param) );
}
fn navigation_command_string(command: NavigationCommand, param: NavigationParam) -> &'static str {
	match command {
	    NavigationCommand::Move => {
            return match param {
                NavigationParam::Previous => "MovePrevious",
                NavigationParam::Next => "MoveNext",
                NavigationParam::Start => "MoveStart",
                NavigationParam::End => "MoveEnd",
                NavigationParam::LineStart => "MoveLineStart",
                NavigationParam::LineEnd => "MoveLineEnd",
                NavigationParam::CellPrevious => "MoveCellPrevious",
                NavigationParam::CellNext => "MoveCellNext",
                NavigationParam::CellUp => "MoveCellUp",
                NavigationParam::CellDown => "MoveCellDown",
                NavigationParam::ColStart => "MoveColumnStart",
                NavigationParam::ColEnd => "MoveColumnEnd",
                _ => {
                    if param < NavigationParam::Placemarker0 || param > NavigationParam::Placemarker9 {
                        panic!("Internal Error: Found illegal value for param of NavigationCommand::Move");
                    }
                    static MOVE_TO: &[&str] = &["MoveTo0","MoveTo1","MoveTo2","MoveTo3","MoveTo4","MoveTo5","MoveTo6","MoveTo7","MoveTo8","MoveTo9"];
                    return MOVE_TO[(param as usize) - (NavigationParam::Placemarker0 as usize)];
                }
            }
        },
        NavigationCommand::Zoom => {
            return match param {
                NavigationParam::Next => "ZoomIn",
                NavigationParam::Previous => "ZoomOut",
                NavigationParam::Start => "ZoomOutAll",
                NavigationParam::End => "ZoomInAll",
                _  => panic!("Illegal param for NavigationCommand::Zoom"),
            }
        },
        NavigationCommand::MoveLastLocation => {
            return "MoveLastLocation";
        },
        NavigationCommand::Read => {
            return match param {
                NavigationParam::Previous => "ReadPrevious",
                NavigationParam::Next => "ReadNext",
                NavigationParam::Current => "ReadCurrent",
                NavigationParam::CellCurrent => "ReadCellCurrent",
                NavigationParam::Start => "ReadStart",
                NavigationParam::End => "ReadEnd",
                NavigationParam::LineStart => "ReadLineStart",
                NavigationParam::LineEnd => "ReadLineEnd",
                _ => {
                    if param < NavigationParam::Placemarker0 || param > NavigationParam::Placemarker9 {
                        panic!("Internal Error: Found illegal value for param of NavigationCommand::Move");
                    }
                    static READ_PLACE_MARKERS: &[&str] = &["Read0","Read1","Read2","Read3","Read4","Read5","Read6","Read7","Read8","Read9"];
                    return READ_PLACE_MARKERS[(param as usize) - (NavigationParam::Placemarker0 as usize)];
                },
            }
        },
        NavigationCommand::Describe => {
            return match param {
                NavigationParam::Previous => "DescribePrevious",
                NavigationParam::Next => "DescribeNext",
                NavigationParam::Current => "DescribeCurrent",
                _ => {
                    if param < NavigationParam::Placemarker0 || param > NavigationParam::Placemarker9 {
                        panic!("Internal Error: Found illegal value for param of NavigationCommand::Describe");
                    }
                    static DESCRIBE_PLACE_MARKERS: &[&str] = &["Describe0","Describe1","Describe2","Describe3","Describe4","Describe5","Describe6","Describe7","Describe8","Describe9"];
                    return DESCRIBE_PLACE_MARKERS[(param as usize) - (NavigationParam::Placemarker0 as usize)];
                }
            }
        },
        NavigationCommand::ReadTo => {
            // FIX: implement
            return "Error";
        },
        NavigationCommand::Locate => {
            if param ==NavigationParam::Previous {
                return "WhereAmI";
            } else if param ==NavigationParam::Last {
                return "WhereAmIAll";
            }
        },
        NavigationCommand::ChangeNavMode => {
            if param ==NavigationParam::Previous {
                return "ToggleZoomLockUp";
            } else if param ==NavigationParam::Next {
                return "ToggleZoomLockDown";
            }
        },
        NavigationCommand::ToggleSpeakMode => {
            return "ToggleSpeakMode";
        },
        NavigationCommand::SetPlacemarker => {
            if param < NavigationParam::Placemarker0 || param > NavigationParam::Placemarker9 {
                panic!("Internal Error: Found illegal value for param of NavigationCommand::SetPlacemarker");
            }
            static SET_PLACE_MARKER: &[&str] = &["SetPlacemarker0","SetPlacemarker1","SetPlacemarker2","SetPlacemarker3","SetPlacemarker4","SetPlacemarker5","SetPlacemarker6","SetPlacemarker7","SetPlacemarker8","SetPlacemarker9"];
            return SET_PLACE_MARKER[(param as usize) - (NavigationParam::Placemarker0 as usize)];
        },
        NavigationCommand::Exit => {
            return "Exit";
        },
        NavigationCommand::Last => {
            return "Error";
        }
    };
    return "Error";
}
pub static NAV_COMMANDS: phf::Set<&str> = phf_set! {
    "MovePrevious", "MoveNext", "MoveStart", "MoveEnd", "MoveLineStart", "MoveLineEnd", 
    "MoveCellPrevious", "MoveCellNext", "MoveCellUp", "MoveCellDown", "MoveColumnStart", "MoveColumnEnd", 
    "ZoomIn", "ZoomOut", "ZoomOutAll", "ZoomInAll", 
    "MoveLastLocation", 
    "ReadPrevious", "ReadNext", "ReadCurrent", "ReadCellCurrent", "ReadStart", "ReadEnd", "ReadLineStart", "ReadLineEnd", 
    "DescribePrevious", "DescribeNext", "DescribeCurrent", 
    "WhereAmI", "WhereAmIAll", 
    "ToggleZoomLockUp", "ToggleZoomLockDown", "ToggleSpeakMode", 
    "Exit", 
    "MoveTo0","MoveTo1","MoveTo2","MoveTo3","MoveTo4","MoveTo5","MoveTo6","MoveTo7","MoveTo8","MoveTo9",
    "Read0","Read1","Read2","Read3","Read4","Read5","Read6","Read7","Read8","Read9",
    "Describe0","Describe1","Describe2","Describe3","Describe4","Describe5","Describe6","Describe7","Describe8","Describe9",
    "SetPlacemarker0","SetPlacemarker1","SetPlacemarker2","SetPlacemarker3","SetPlacemarker4","SetPlacemarker5","SetPlacemarker6","SetPlacemarker7","SetPlacemarker8","SetPlacemarker9",
};
#[derive(Clone, PartialEq, Debug)]
struct NavigationPosition {
    current_node: String,           // id of current node
    current_node_offset: usize,     // for leaves, what char offset in leaf (default = 0)
}
const ILLEGAL_NODE_ID: &str = "!not set";     // an illegal 'id' value
impl Default for NavigationPosition {
    fn default() -> Self {
        NavigationPosition {
            current_node: ILLEGAL_NODE_ID.to_string(), 
            current_node_offset: 0    
        }
     }
}
const MAX_PLACE_MARKERS: usize = 10;
fn is_highlighted(ch: char) -> bool {
    let ch_as_u32 = ch as u32;
    return (0x28C0..0x28FF).contains(&ch_as_u32);           // 0x28C0..0x28FF all have dots 7 & 8 on
}
fn highlight(ch: char) -> char {
    return unsafe{char::from_u32_unchecked(ch as u32 | 0xC0)};    // 0x28C0..0x28FF all have dots 7 & 8 on
}
fn unhighlight(ch: char) -> char {
    let ch_as_u32 = ch as u32;
    if (0x28C0..0x28FF).contains(&ch_as_u32) {              // 0x28C0..0x28FF all have dots 7 & 8 on
        return unsafe{char::from_u32_unchecked(ch_as_u32 & 0x283F)};
    } else {
        return ch;
    }
}
fn add_dots_to_braille_char(ch: char, baseline_indicator_hack: bool) -> char {
            let as_u32 = ch as u32;
            if (0x2800..0x28FF).contains(&as_u32) {
                return unsafe {char::from_u32_unchecked(as_u32 | 0xC0)};
            } else if baseline_indicator_hack && ch == 'b' {
                return '𝑏'
            } else {
                return ch;
            }
        }
fn shift_text(old_text: &str, char_mapping: &[u32; 3]) -> String {
			// if there is no block for something, use 'a', 'A', 0 as that will be a no-op
			struct Offsets {
				ch: u32,
				table: usize, 
			}
			static SHIFT_AMOUNTS: phf::Map<char, Offsets> = phf_map! {
				'A' => Offsets{ ch: 0, table: 0},
				'B' => Offsets{ ch: 1, table: 0},
				'C' => Offsets{ ch: 2, table: 0},
				'D' => Offsets{ ch: 3, table: 0},
				'E' => Offsets{ ch: 4, table: 0},
				'F' => Offsets{ ch: 5, table: 0},
				'G' => Offsets{ ch: 6, table: 0},
				'H' => Offsets{ ch: 7, table: 0},
				'I' => Offsets{ ch: 8, table: 0},
				'J' => Offsets{ ch: 9, table: 0},
				'K' => Offsets{ ch: 10, table: 0},
				'L' => Offsets{ ch: 11, table: 0},
				'M' => Offsets{ ch: 12, table: 0},
				'N' => Offsets{ ch: 13, table: 0},
				'O' => Offsets{ ch: 14, table: 0},
				'P' => Offsets{ ch: 15, table: 0},
				'Q' => Offsets{ ch: 16, table: 0},
				'R' => Offsets{ ch: 17, table: 0},
				'S' => Offsets{ ch: 18, table: 0},
				'T' => Offsets{ ch: 19, table: 0},
				'U' => Offsets{ ch: 20, table: 0},
				'V' => Offsets{ ch: 21, table: 0},
				'W' => Offsets{ ch: 22, table: 0},
				'X' => Offsets{ ch: 23, table: 0},
				'Y' => Offsets{ ch: 24, table: 0},
				'Z' => Offsets{ ch: 25, table: 0},
				'a' => Offsets{ ch: 26, table: 0},
				'b' => Offsets{ ch: 27, table: 0},
				'c' => Offsets{ ch: 28, table: 0},
				'd' => Offsets{ ch: 29, table: 0},
				'e' => Offsets{ ch: 30, table: 0},
				'f' => Offsets{ ch: 31, table: 0},
				'g' => Offsets{ ch: 32, table: 0},
				'h' => Offsets{ ch: 33, table: 0},
				'i' => Offsets{ ch: 34, table: 0},
				'j' => Offsets{ ch: 35, table: 0},
				'k' => Offsets{ ch: 36, table: 0},
				'l' => Offsets{ ch: 37, table: 0},
				'm' => Offsets{ ch: 38, table: 0},
				'n' => Offsets{ ch: 39, table: 0},
				'o' => Offsets{ ch: 40, table: 0},
				'p' => Offsets{ ch: 41, table: 0},
				'q' => Offsets{ ch: 42, table: 0},
				'r' => Offsets{ ch: 43, table: 0},
				's' => Offsets{ ch: 44, table: 0},
				't' => Offsets{ ch: 45, table: 0},
				'u' => Offsets{ ch: 46, table: 0},
				'v' => Offsets{ ch: 47, table: 0},
				'w' => Offsets{ ch: 48, table: 0},
				'x' => Offsets{ ch: 49, table: 0},
				'y' => Offsets{ ch: 50, table: 0},
				'z' => Offsets{ ch: 51, table: 0},
				'0' => Offsets{ ch: 0, table: 1},
				'1' => Offsets{ ch: 1, table: 1},
				'2' => Offsets{ ch: 2, table: 1},
				'3' => Offsets{ ch: 3, table: 1},
				'4' => Offsets{ ch: 4, table: 1},
				'5' => Offsets{ ch: 5, table: 1},
				'6' => Offsets{ ch: 6, table: 1},
				'7' => Offsets{ ch: 7, table: 1},
				'8' => Offsets{ ch: 8, table: 1},
				'9' => Offsets{ ch: 9, table: 1},
				'Α' => Offsets{ ch: 0, table: 2},
				'Β' => Offsets{ ch: 1, table: 2},
				'Γ' => Offsets{ ch: 2, table: 2},
				'Δ' => Offsets{ ch: 3, table: 2},
				'Ε' => Offsets{ ch: 4, table: 2},
				'Ζ' => Offsets{ ch: 5, table: 2},
				'Η' => Offsets{ ch: 6, table: 2},
				'Θ' => Offsets{ ch: 7, table: 2},
				'Ι' => Offsets{ ch: 8, table: 2},
				'Κ' => Offsets{ ch: 9, table: 2},
				'Λ' => Offsets{ ch: 10, table: 2},
				'Μ' => Offsets{ ch: 11, table: 2},
				'Ν' => Offsets{ ch: 12, table: 2},
				'Ξ' => Offsets{ ch: 13, table: 2},
				'Ο' => Offsets{ ch: 14, table: 2},
				'Π' => Offsets{ ch: 15, table: 2},
				'Ρ' => Offsets{ ch: 16, table: 2},
				'ϴ' => Offsets{ ch: 17, table: 2},
				'Σ' => Offsets{ ch: 18, table: 2},
				'Τ' => Offsets{ ch: 19, table: 2},
				'Υ' => Offsets{ ch: 20, table: 2},
				'Φ' => Offsets{ ch: 21, table: 2},
				'Χ' => Offsets{ ch: 22, table: 2},
				'Ψ' => Offsets{ ch: 23, table: 2},
				'Ω' => Offsets{ ch: 24, table: 2},
				'∇' => Offsets{ ch: 25, table: 2},								
				'α' => Offsets{ ch: 26, table: 2},
				'β' => Offsets{ ch: 27, table: 2},
				'γ' => Offsets{ ch: 28, table: 2},
				'δ' => Offsets{ ch: 29, table: 2},
				'ε' => Offsets{ ch: 30, table: 2},
				'ζ' => Offsets{ ch: 31, table: 2},
				'η' => Offsets{ ch: 32, table: 2},
				'θ' => Offsets{ ch: 33, table: 2},
				'ι' => Offsets{ ch: 34, table: 2},
				'κ' => Offsets{ ch: 35, table: 2},
				'λ' => Offsets{ ch: 36, table: 2},
				'μ' => Offsets{ ch: 37, table: 2},
				'ν' => Offsets{ ch: 38, table: 2},
				'ξ' => Offsets{ ch: 39, table: 2},
				'ο' => Offsets{ ch: 40, table: 2},
				'π' => Offsets{ ch: 41, table: 2},
				'ρ' => Offsets{ ch: 42, table: 2},
				'ς' => Offsets{ ch: 43, table: 2},
				'σ' => Offsets{ ch: 44, table: 2},
				'τ' => Offsets{ ch: 45, table: 2},
				'υ' => Offsets{ ch: 46, table: 2},
				'φ' => Offsets{ ch: 47, table: 2},
				'χ' => Offsets{ ch: 48, table: 2},
				'ψ' => Offsets{ ch: 49, table: 2},
				'ω' => Offsets{ ch: 50, table: 2},
				'∂' => Offsets{ ch: 51, table: 2},
				'ϵ' => Offsets{ ch: 52, table: 2},
				'ϑ' => Offsets{ ch: 53, table: 2},
				'ϰ' => Offsets{ ch: 54, table: 2},
				'ϕ' => Offsets{ ch: 55, table: 2},
				'ϱ' => Offsets{ ch: 56, table: 2},
				'ϖ' => Offsets{ ch: 57, table: 2},
			};
			let mut new_text = String::new();
			for ch in old_text.chars() {
				new_text.push(
					match SHIFT_AMOUNTS.get(&ch) {
						None => {
							// there are two digamma chars only in the bold mapping. Handled here
							if char_mapping[2] == 0x1D6A8 {
								match ch {
									'Ϝ' => '𝟊',
									'ϝ' => '𝟋',
									_   => ch,
								}
							} else {
								ch
							}
						},
						Some(offsets) => {
							let start_of_mapping = char_mapping[offsets.table];
							if start_of_mapping == 0 {ch} else {shift_char(start_of_mapping + offsets.ch)}
						}
					}
				)
			}
			return new_text;

			fn shift_char(ch: u32) -> char {
				// there are "holes" in the math alphanumerics due to legacy issues
				// this table maps the holes to their legacy location
				static EXCEPTIONS: phf::Map<u32, u32> = phf_map! {
					0x1D455u32 => 0x210Eu32,
					0x1D49Du32 => 0x212Cu32,
					0x1D4A0u32 => 0x2130u32,
					0x1D4A1u32 => 0x2131u32,
					0x1D4A3u32 => 0x210Bu32,
					0x1D4A4u32 => 0x2110u32,
					0x1D4A7u32 => 0x2112u32,
					0x1D4A8u32 => 0x2133u32,
					0x1D4ADu32 => 0x211Bu32,
					0x1D4BAu32 => 0x212Fu32,
					0x1D4BCu32 => 0x210Au32,
					0x1D4C4u32 => 0x2134u32,
					0x1D506u32 => 0x212Du32,
					0x1D50Bu32 => 0x210Cu32,
					0x1D50Cu32 => 0x2111u32,
					0x1D515u32 => 0x211Cu32,
					0x1D51Du32 => 0x2128u32,
					0x1D53Au32 => 0x2102u32,
					0x1D53Fu32 => 0x210Du32,
					0x1D545u32 => 0x2115u32,
					0x1D547u32 => 0x2119u32,
					0x1D548u32 => 0x211Au32,
					0x1D549u32 => 0x211Du32,
					0x1D551u32 => 0x2124u32,
				};
								
				return unsafe { char::from_u32_unchecked(
					match EXCEPTIONS.get(&ch) {
						None => ch,
						Some(exception_value) => *exception_value,
					}
				) }
			}
		}
static MATH_VARIANTS: phf::Map<&str, [u32; 3]> = phf_map! {
			// "normal" -- nothing to do
			"italic" => [0, 0, 0x1D6E2],
			"bold" => [0x1D400, 0x1D7CE, 0x1D6A8],
			"bold-italic" => [0x1D468, 0x1D7CE, 0x1D71C],
			"double-struck" => [0x1D538, 0x1D7D8, 0],
			"bold-fraktur" => [0x1D56C, 0, 0x1D6A8],
			"script" => [0x1D49C, 0, 0],
			"bold-script" => [0x1D4D0, 0, 0x1D6A8],
			"fraktur" => [0x1D504, 0, 0],
			"sans-serif" => [0x1D5A0, 0x1D7E2, 0],
			"bold-sans-serif" => [0x1D5D4, 0x1D7EC, 0x1D756],
			"sans-serif-italic" => [0x1D608, 0x1D7E2, 0],
			"sans-serif-bold-italic" => [0x1D63C, 0x1D7EC, 0x1D790],
			"monospace" => [0x1D670, 0x1D7F6, 0],
		};

#[cfg(kani)]
mod h {
    use super::*;
    #[kani::proof]
    #[kani::unwind(20)]
    #[kani::stub(std::fmt::format, fmt_stub)]
    fn keypress_total() {
        let key: usize = kani::any();
        let (s, c, a, m): (bool, bool, bool, bool) = (kani::any(), kani::any(), kani::any(), kani::any());
        match key_press_to_command_and_param(key, s, c, a, m) {
            Ok((cmd, param)) => {
                let name = navigation_command_string(cmd, param);
                kani::cover!(name.len() == 5, "Error string reachable");
                assert!(name == "Error" || NAV_COMMANDS.contains(name));
            }
            Err(_) => {}
        }
    }
    fn fmt_stub(_a: std::fmt::Arguments<'_>) -> String { String::new() }

    #[kani::proof]
    fn highlight_roundtrip() {
        let c: char = kani::any();
        let u = c as u32;
        if (0x2800..=0x28FF).contains(&u) {
            assert!(is_highlighted(highlight(c)), "highlighted cell not recognised");
        }
    }
    #[kani::proof]
    fn add_dots_total() {
        let c: char = kani::any();
        let u = c as u32;
        let r = add_dots_to_braille_char(c, false);
        if (0x2800..=0x28FF).contains(&u) { assert!((r as u32) == (u | 0xC0), "cell not highlighted"); }
    }
    #[kani::proof]
    #[kani::unwind(6)]
    fn shift_one_char() {
        let c: char = kani::any();
        kani::assume(c == 'h' || c == 'B' || c == '7' || c == 'Ϝ' || c == '∇' || c == '+');
        let mut buf = [0u8; 4];
        let s: &str = c.encode_utf8(&mut buf);
        let vi: usize = kani::any();
        kani::assume(vi < 13);
        let (_, mapping) = MATH_VARIANTS.entries().nth(vi).unwrap();
        let out = shift_text(s, mapping);
        let mut it = out.chars();
        let r = it.next().unwrap();
        assert!(it.next().is_none());
        assert!((r as u32) < 0x110000 && !((r as u32) >= 0xD800 && (r as u32) < 0xE000));
    }
}
#[cfg(test)]
mod t { use super::*; #[test] fn native() { let (c,p) = key_press_to_command_and_param(37,true,true,false,false).unwrap(); let n = navigation_command_string(c,p); println!("NAME={} in_set={}", n, NAV_COMMANDS.contains(n)); assert!(NAV_COMMANDS.contains(n)); } }
