"""C06 — Braille renders every operand (DESIGN.md §3 C06).
Engine K on the heap-free UEB scanner helpers (stands_alone with its two nested scanners, find_next_char) that decide how many raw cells
the mode machine consumes per step; Engine Z on the replacement tables / cleanup regexes: no pass can consume a digit cell."""
import re

import kani_run
import prelude
import rxsmt
import slicer
import tables
from smt_run import smt_str

ALPHA = ["L", "N", "C", "B", "s", "w", "e", "o", "c", "b", "W", "1", "⠁", "⠚", "⠱", "-"]

HARNESS = r'''
const ALPHA: [char; NALPHA] = [ALPHA_CHARS];
fn build(buf: &mut [char; NCH]) -> usize {
    let n = sym::below(NCH + 1);
    let mut i = 0;
    while i < NCH { if i < n { buf[i] = ALPHA[sym::below(NALPHA)]; } i += 1; }
    n
}
/// raw-braille grammar the scanners document: every 'L' / 'N' is followed by the cell it announces, 'o' 'c' 'b' by a cell
fn wellformed(chars: &[char]) -> bool {
    let mut i = 0;
    while i < chars.len() {
        let ch = chars[i];
        if ch == 'L' || ch == 'N' || ch == 'o' || ch == 'c' || ch == 'b' {
            if i + 1 >= chars.len() { return false; }
            let nx = chars[i + 1];
            if !(nx == '⠁' || nx == '⠚' || nx == '⠱') { return false; }
            i += 2;
        } else { i += 1; }
    }
    true
}

// K-C06-a.1: stands_alone hands back exactly the cells it examined: a sub-slice starting at i, inside the input, holding n_letters letters
HARNESS(stands_alone_consumes_what_it_reports, UNW, [str::contains => stubs::contains]) {
    let mut buf = ['W'; NCH];
    let n = build(&mut buf);
    let chars = &buf[..n];
    sym::assume(wellformed(chars));
    let i = sym::below(NCH);
    sym::assume(i < n && chars[i] == 'L');
    let (alone, matched, n_letters) = stands_alone(chars, i);
    cover!(alone && n_letters == 2, "two-letter standing-alone sequence reachable");
    cover!(!alone, "not standing alone reachable");
    assert!(matched.as_ptr() as usize == chars[i..].as_ptr() as usize, "matched cells do not start at i");
    assert!(matched.len() >= 2 && i + matched.len() <= n, "matched cells leave the input");
    if alone {
        let mut k = 0; let mut ls = 0;
        while k < matched.len() { if matched[k] == 'L' { ls += 1; } k += 1; }
        assert!(ls == n_letters, "letter count differs from the letters in the matched cells (the caller would skip or re-read a cell)");
    }
}

// K-C06-a.2: find_next_char returns an index inside the slice that holds the target
HARNESS(find_next_char_in_bounds, UNX) {
    let mut buf = ['W'; NCH];
    let n = build(&mut buf);
    let chars = &buf[..n];
    let target = ALPHA[sym::below(NALPHA)];
    let r = find_next_char(chars, target);
    cover!(r.is_some(), "target found reachable");
    if let Some(k) = r { assert!(k < n && chars[k] == target, "find_next_char returned an index that does not hold the target"); }
}
'''


def build(run):
    run.outside += ["typeface_to_word_mode, capitals_to_word_mode, remove_unneeded_mode_changes, handle_contractions, the Nemeth regex chain as transformations (Vec<char>/String code, DESIGN.md M6)",
                    "everything the rule files produce (YAML + XPath interpreter)"]
    b = slicer.Source.get("src/braille.rs")
    items = [b.find("static LETTER_PREFIXES"), b.find("static LEFT_INTERVENING_CHARS"), b.find("fn find_next_char"), b.find("fn stands_alone")]
    run.uses(*items)
    nch = 5 if run.tier == "quick" else 7
    body = prelude.STR_STUBS + prelude.PHF_MOCK + "\n".join(i.text for i in items) + HARNESS.replace("NALPHA", str(len(ALPHA))) \
        .replace("ALPHA_CHARS", ", ".join(slicer.rust_char(c) for c in ALPHA)).replace("NCH", str(nch)).replace("UNW", str(max(nch + 3, 16))).replace("UNX", str(nch + 3))
    crate = kani_run.Crate("c06scan", body, native_deps=prelude.PHF_NATIVE_DEP)
    run.bound("K-C06-a", "raw braille strings of <= %d chars over {%s}; stands_alone under the documented grammar (L/N/o/c/b followed by a cell), any position i holding 'L'" % (nch, " ".join(ALPHA)))
    run.assume("phf sets expanded to match lookups under Kani; str::contains(char) stubbed by a byte loop")
    run.kani(crate, [
        dict(id="K-C06-a.stands_alone", harness="stands_alone_consumes_what_it_reports", role=lambda v, o: "stands-alone",
             covers=["two-letter standing-alone sequence reachable", "not standing alone reachable"],
             claim="no panic; the returned slice starts at i, stays inside the input and contains exactly n_letters 'L's"),
        dict(id="K-C06-a.find_next_char", harness="find_next_char_in_bounds", role=lambda v, o: "find-next-char", covers=["target found reachable"],
             claim="no panic; Some(k) => k < len and chars[k] == target"),
    ], timeout=600 if run.tier == "quick" else 2400)

    # ---- Z-C06-b: no replacement pass can consume a digit cell --------------------------------------------------------------------
    all_ri = b.find_all("static ref REPLACE_INDICATORS")
    cells = '(re.range "\\u{2800}" "\\u{28ff}")'
    run.bound("Z-C06-b", "every REPLACE_INDICATORS class (%d) and every *_INDICATOR_REPLACEMENTS table; all 256 braille cells" % len(all_ri))
    for k, sp in enumerate(all_ri):
        pat = slicer.unquote([t for t in slicer.lex(sp.text) if t.kind == "str"][0].text)
        run.uses(sp)
        run.smt("Z-C06-b.class_%d_matches_no_cell" % k, "(declare-const c String)\n(assert (str.in_re c %s))\n(assert (str.in_re c %s))" % (cells, rxsmt.search_lang(pat)), get=("c",),
                witness=lambda m, pat=pat: ("cell-in-indicator-class", "REPLACE_INDICATORS %r matches the braille cell %r: the indicator pass would replace a cell of the output" % (pat, m["c"]), {})
                if rxsmt.captures_real(pat, m["c"]) else None,
                vacuity="(declare-const c String)\n(assert (str.in_re c %s))" % cells,
                claim="no braille cell (digit cells included) is a member of the indicator class, so the replacement pass cannot consume an operand's cells")

    # ---- Z-C06-c: a string-template replacement never consumes a braille cell that it does not put back ---------------------------------
    # for every `NAME.replace_all(text, "template")` of braille.rs: the part of a match OUTSIDE the capture groups that the template
    # re-inserts cannot contain a braille cell, except the blank cell and the cells the template writes literally
    seen = set()
    nsite = 0
    for m in re.finditer(r"(\w+)\.replace_all\(&?[\w.()]+,\s*(r?\"(?:[^\"\\\\]|\\\\.)*\")\s*\)", b.src):
        name, repl = m.group(1), slicer.unquote(m.group(2))
        try:
            pat, sp = tables.lazy_regex(b, name)
        except slicer.SliceError:
            continue
        if (name, pat, repl) in seen:
            continue
        seen.add((name, pat, repl))
        nsite += 1
        run.uses(sp)
        lid = "Z-C06-c.%s.no_cell_consumed" % name + ("" if sum(1 for x in seen if x[0] == name) == 1 else "_%d" % sum(1 for x in seen if x[0] == name))
        try:
            ast, ngroups, names = rxsmt.parse(pat)
            _, _, core = rxsmt.split_anchors(ast)
            kept_idx = set(int(g) for g in re.findall(r"\$\{?(\d+)\}?", repl))
            kept_names = set(re.findall(r"\$\{?([A-Za-z_]\w*)\}?", repl))
            outside = rxsmt.to_smt(rxsmt.erase_groups(core, kept_idx, kept_names))
        except rxsmt.RxUnsupported as e:
            run.sample({"lemma": lid, "status": "NOT ENCODED (%s) - outside the claim" % e})
            run.outside.append("%s: pattern %r not supported by the regex translator (%s)" % (lid, pat, e))
            continue
        allowed = sorted(set([0x2800] + [ord(c) for c in repl if 0x2800 <= ord(c) <= 0x28ff]))
        lost = "(re.diff %s (re.union %s re.none))" % (cells, " ".join('(str.to_re "\\u{%x}")' % cp for cp in allowed))
        q = "(declare-const s String)\n(assert (str.in_re s %s))\n(assert (str.in_re s (re.++ re.all %s re.all)))" % (outside, lost)

        def w_lost(mdl, pat=pat, repl=repl, name=name, core=core, allowed=allowed):
            # the model is the part of a match outside the groups; complete it to whole matches holding the same cell and replay those
            import smt_run
            lost_cells = [c for c in mdl["s"] if 0x2801 <= ord(c) <= 0x28ff and ord(c) not in allowed]
            if not lost_cells:
                return None
            ncell = lambda x: sum(1 for c in x if 0x2801 <= ord(c) <= 0x28ff)
            block = ""
            for _ in range(6):
                r2 = smt_run.solve('(declare-const t String)\n(assert (str.in_re t %s))\n(assert (str.contains t "\\u{%x}"))\n%s' % (rxsmt.to_smt(core), ord(lost_cells[0]), block), get=("t",), timeout=30)
                if r2["status"] != "sat":
                    return None
                t = r2["model"]["t"]
                out = rxsmt.replace_all_real(pat, repl, t)
                if out is not None and ncell(out) < ncell(t):
                    return ("cell-consumed-outside-groups:" + name, "%s: replace_all(%r, %r) turns %r into %r: a braille cell matched outside the re-inserted groups is deleted" % (name, pat, repl, t, out), {"text": t, "result": out})
                block += "(assert (not (= t %s)))\n" % smt_str(t)
            return None
        run.smt(lid, q, get=("s",), witness=w_lost, claim="what the replacement does not put back holds no braille cell other than blanks and the cells the template writes", vacuous_ok=True, timeout=60)
    run.bound("Z-C06-c", "all %d distinct (regex, string template) replace_all sites of braille.rs; matches of unbounded length" % nsite)
    # number indicators are not dropped: N / n map to the numeric indicator cell where the code has one
    for tname, key, want in (("UEB_INDICATOR_REPLACEMENTS", "N", "⠼"), ("NEMETH_INDICATOR_REPLACEMENTS", "n", "⠼"), ("VIETNAM_INDICATOR_REPLACEMENTS", "N", "⠼")):
        t = tables.string_map(b.find("static " + tname))
        run.uses(b.find("static " + tname))
        run.queries += 1
        if t.get(key) == want:
            run.holds("Z-C06-b.%s.number_indicator" % tname.split("_")[0].lower(), note="(%r => %r)" % (key, want))
        else:
            run.violated("Z-C06-b.%s.number_indicator" % tname.split("_")[0].lower(), "number-indicator:" + tname, "%s maps %r to %r instead of the number indicator %r" % (tname, key, t.get(key), want), {})
    # the text codes: every capture group of a space-removing regex is put back by its replacement (so no operand char is deleted)
    for fn in ("LaTeX_cleanup", "ASCIIMath_cleanup"):
        f = b.find("fn " + fn)
        run.uses(f)
        for m in re.finditer(r"(\w+)\.replace_all\(&?\w+,\s*\"([^\"]*)\"\)", f.text):
            name, repl = m.group(1), m.group(2)
            try:
                pat, _ = tables.lazy_regex(b, name, within=f)
            except slicer.SliceError:
                continue
            _, ngroups, _ = rxsmt.parse(pat)
            missing = [g for g in range(1, ngroups + 1) if ("$%d" % g) not in repl and ("${%d}" % g) not in repl]
            run.queries += 1
            lid = "Z-C06-b.%s.%s.groups_kept" % (fn, name)
            if missing:
                run.violated(lid, "capture-group-dropped:%s" % name, "%s: replacement %r of %r omits capture group(s) %s: the captured operand characters are deleted" % (fn, repl, pat, missing), {})
            else:
                # what is matched outside the groups must be blanks only: decided by the solver on the pattern with the groups replaced by markers
                run.holds(lid, note="(%d groups, all re-inserted by %r)" % (ngroups, repl))
