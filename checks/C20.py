"""C20 — Braille highlighting and cursor routing are safe and side-effect free (DESIGN.md §3 C20)."""
from checks import braille_kernels as bk


def build(run):
    run.outside += ["purity w.r.t. later speech/braille output (whole session state)", "ids belonging to the expression (DOM)"]
    npre = 3 if run.tier == "quick" else 5
    c = bk.crate(run, "c20hl", lookback=True, npre=npre)
    run.bound("K-C20-a", "symbolic char over all 0x110000 scalar values")
    run.bound("K-C20-b", "indicator prefix: every string of <= %d cells over {⠠ ⠼ ⠸ ⠈ ⠨ ⠰ ⠘ ⠐ ⠆ ⠁}, first highlighted cell from the same set; the real caller passes at most 5 cells" % npre)
    run.assume("phf sets (NEMETH_NUMBERS, UEB_PREFIXES, UEB_TYPEFORM_PREFIXES) expanded from their verbatim table text into match lookups under Kani; native replay uses the real phf crate")
    lemmas = [
        dict(id="K-C20-a.marked_is_recognised", harness="hl_marked_is_recognised",
             covers=["ordinary cell reachable", "full cell reachable"], role=bk.role_cell, api=bk.api_highlight_positions,
             claim="the cells that carry dots 7-8 are exactly the ones highlight_braille_chars finds (start/end positions)"),
        dict(id="K-C20-a.unhighlight_inverse", harness="hl_unhighlight_inverse",
             covers=["six-dot cell reachable", "already highlighted cell reachable"], role=bk.role_cell, api=bk.api_highlight_positions,
             claim="moving the highlight to an indicator (unhighlight old, highlight new) restores the old cell exactly"),
        dict(id="K-C20-a.valid_scalar", harness="hl_valid_scalar_any_char",
             covers=["non-braille char reachable", "astral char reachable"], role=bk.role_cell,
             claim="fill-range highlighting applies highlight() to arbitrary chars: always a valid scalar value"),
        dict(id="K-C20-b.lookback_nemeth", harness="lookback_nemeth_bounded", covers=["two indicator cells counted", "longest prefix reachable"],
             role=lambda v, o: "nemeth-prefix", api=bk.api_nemeth_double_cap, claim="i_start_nemeth(prefix, first) <= cells in prefix (start_index - 3*r cannot underflow)"),
        dict(id="K-C20-b.lookback_ueb", harness="lookback_ueb_bounded", covers=["two indicator cells counted", "longest prefix reachable"],
             role=lambda v, o: "ueb-prefix", claim="i_start_ueb(prefix) <= cells in prefix"),
    ]
    run.kani(c, lemmas)
