"""C20 — Braille highlighting and cursor routing are safe and side-effect free (DESIGN.md §3 C20)."""
from checks import braille_kernels as bk
from framework import mcprobe
import prelude


def build(run):
    run.outside += ["purity w.r.t. later speech/braille output (whole session state)", "ids belonging to the expression (DOM)"]
    npre = 3 if run.tier == "quick" else 5
    c = bk.crate(run, "c20hl", lookback=True, npre=npre)
    run.bound("K-C20-a", "symbolic char over all 0x110000 scalar values")
    run.bound("K-C20-b", "indicator prefix: every string of <= %d cells over {⠠ ⠼ ⠸ ⠈ ⠨ ⠰ ⠘ ⠐ ⠆ ⠁}, first highlighted cell from the same set; the real caller passes at most 5 cells" % npre)
    run.assume("phf sets (NEMETH_NUMBERS, UEB_PREFIXES, UEB_TYPEFORM_PREFIXES) expanded from their verbatim table text into match lookups under Kani; native replay uses the real phf crate")
    lemmas = [
        dict(id="K-C20-a.marked_is_recognised", harness="hl_marked_is_recognised",
             covers=["ordinary cell reachable", "full cell reachable"], role=bk.role_cell, api=bk.api_highlight_positions,
             claim="the cells that carry dots 7-8 are exactly the ones highlight_braille_chars finds (start/end positions)"),
        dict(id="K-C20-a.unhighlight_inverse", harness="hl_unhighlight_inverse",
             covers=["six-dot cell reachable", "already highlighted cell reachable"], role=bk.role_cell, api=bk.api_highlight_positions,
             claim="moving the highlight to an indicator (unhighlight old, highlight new) restores the old cell exactly"),
        dict(id="K-C20-a.valid_scalar", harness="hl_valid_scalar_any_char",
             covers=["non-braille char reachable", "astral char reachable"], role=bk.role_cell,
             claim="fill-range highlighting applies highlight() to arbitrary chars: always a valid scalar value"),
        dict(id="K-C20-b.lookback_nemeth", harness="lookback_nemeth_bounded", covers=["two indicator cells counted", "longest prefix reachable"],
             role=lambda v, o: "nemeth-prefix", api=bk.api_nemeth_double_cap, claim="i_start_nemeth(prefix, first) <= cells in prefix (start_index - 3*r cannot underflow)"),
        # 95-280 s of solver time (it varies that much with the load of the machine; 2 cells instead of 3 is no cheaper): thorough tier only.
        # In the quick tier i_start_ueb still runs on the literal prefixes of K-C20-e's UEB cases
        dict(id="K-C20-b.lookback_ueb", harness="lookback_ueb_bounded", covers=["two indicator cells counted", "longest prefix reachable"],
             role=lambda v, o: "ueb-prefix", claim="i_start_ueb(prefix) <= cells in prefix", deep=True),
    ]
    run.kani(c, lemmas)
    crate_d, lemma_d = restore_lemma(run)
    run.kani(crate_d, [lemma_d])
    crate_e, lemmas_e = positions_lemma(run)
    run.kani(crate_e, lemmas_e, timeout=600)
    crate_f, lemma_f = position_lemma(run)
    run.kani(crate_f, [lemma_f], timeout=300)


# ======================================================================================================================
# K-C20-d: get_navigation_node_from_braille_position is a pure query w.r.t. the highlight preference
import kani_run as _kr
import slicer as _sl

RESTORE_SHIM = r'''
use std::cell::{Cell, RefCell};
use core::marker::PhantomData;
pub type Result<T> = core::result::Result<T, ()>;
macro_rules! bail { ($($t:tt)*) => { return Err(()) }; }
thread_local! { static HIGHLIGHT_PREF: Cell<u8> = Cell::new(0); static N_PROBES: RefCell<usize> = RefCell::new(0); }
// the preference store, reduced to the one preference the function touches; both values are 9 bytes long
fn get_preference(_name: String) -> Result<String> { core::mem::forget(_name); Ok(if HIGHLIGHT_PREF.with(|p| p.get()) == 0 { "FirstChar".to_string() } else { "EndPoints".to_string() }) }
fn set_preference(_name: String, value: String) -> Result<()> {
    HIGHLIGHT_PREF.with(|p| p.set(if value.as_bytes()[0] == b'E' { 1 } else { 0 }));
    core::mem::forget(_name); core::mem::forget(value);
    Ok(())
}
#[derive(Clone, Copy)] pub struct Element<'a> { has_id: bool, childless: bool, p: PhantomData<&'a ()> }
#[derive(Clone, Copy)] pub struct ChildOfElement<'a>(Element<'a>);
/// child list of the math element: one child, or none when no expression has been set (the initial package holds <math></math>)
pub struct Kids<'a> { e: [ChildOfElement<'a>; 1], n: usize }
impl<'a> Kids<'a> { fn is_empty(&self) -> bool { self.n == 0 } fn len(&self) -> usize { self.n } }
impl<'a> core::ops::Index<usize> for Kids<'a> { type Output = ChildOfElement<'a>; fn index(&self, i: usize) -> &ChildOfElement<'a> { assert!(i < self.n, "index out of bounds: the math element has no children (no expression has been set)"); &self.e[i] } }
impl<'a> Element<'a> {
    fn attribute_value(&self, _name: &str) -> Option<&'a str> { if self.has_id { Some("id-12345") } else { None } }
    fn children(&self) -> Kids<'a> { Kids { e: [ChildOfElement(Element { has_id: self.has_id, childless: false, p: PhantomData })], n: if self.childless { 0 } else { 1 } } }
}
fn as_element<'a>(c: ChildOfElement<'a>) -> Element<'a> { c.0 }
fn mml_to_string(_e: &Element) -> String { String::new() }
'''

RESTORE_HARNESS = r'''
fn node_from_position<'m>(mathml: Element<'m>, position: usize) -> Result<(String, usize)> {
BODY
    // the recursive search (braille_mathml on the DOM, rule interpreter): replaced by an arbitrary outcome
    fn find_navigation_node<'e>(_mathml: Element<'e>, node: Element<'e>, target_position: usize) -> Result<SearchState<'e>> {
        if sym::bool() || !node.has_id { return Err(()); }      // the real search bails when the node has no id
        let status = match sym::below(4) { 0 => SearchStatus::LookInParent, 1 => SearchStatus::LookLeft, 2 => SearchStatus::LookRight, _ => SearchStatus::Found };
        let start = sym::usize();
        let end = sym::usize();
        // contract of the search (comment in the source: "at this point, start <= target_position && target_position <= end")
        if let SearchStatus::Found | SearchStatus::LookInParent = status { sym::assume(start <= target_position && target_position <= end); }
        Ok(SearchState { status, node, highlight_start: start, highlight_end: end })
    }
}

// K-C20-d: whatever the search returns, a successful call leaves the highlight preference as it found it
HARNESS(braille_position_query_restores_highlight_pref, 12) {
    let mathml = Element { has_id: sym::bool(), childless: sym::bool(), p: PhantomData };
    if mathml.childless { sym::assume(!mathml.has_id); }      // before the first set_mathml: <math></math> without id
    let position = sym::usize();
    cover!(mathml.childless, "no expression set reachable");
    HIGHLIGHT_PREF.with(|p| p.set(0));                 // the caller's setting: "FirstChar"
    let r = node_from_position(mathml, position);      // no panic (position - highlight_start, unwraps)
    let after = HIGHLIGHT_PREF.with(|p| p.get());
    cover!(r.is_ok() && after == 0, "successful query reachable");
    cover!(r.is_err(), "failing search reachable");
    match r {
        Ok((id, off)) => { assert!(after == 0, "BrailleNavHighlight is left at EndPoints after a successful query"); assert!(off <= position, "offset larger than the position"); core::mem::forget(id); }
        Err(_) => { if mathml.childless { assert!(after == 0, "BrailleNavHighlight was changed although there is no expression to search"); }
                    /* observation, not asserted: a failing search (`?`) returns before the preference is restored on the unchanged tree */ }
    }
}
'''


def restore_lemma(run):
    b = _sl.Source.get("src/braille.rs")
    f = b.find("fn get_navigation_node_from_braille_position")
    run.uses(f)
    body = f.body_without_nested_fns().replace("#[derive(Debug, Display)]", "#[derive(Debug)]")
    crate = _kr.Crate("c20restore", RESTORE_SHIM + RESTORE_HARNESS.replace("BODY", body))
    run.bound("K-C20-d", "the function's own statements (nested search functions cut out) with an arbitrary search outcome: Ok/Err, any of the 4 SearchStatus values, any start/end, any position; id attribute present or not; math element with one child or none (no expression set)")
    run.assume("get_preference/set_preference reduced to a one-cell store for BrailleNavHighlight (values FirstChar/EndPoints); find_navigation_node replaced by an arbitrary outcome satisfying the contract stated in its source comment; Element reduced to what the statements use",
               "not asserted (observation): when the search itself fails, the unchanged tree returns through `?` with the preference still set to EndPoints")

    def api(vals, out):
        if "no expression has been set" in out:
            import subprocess
            # a fresh session: get_navigation_node_from_braille_position before any set_mathml
            res = mcprobe(["nodeat 3", ("mathml", "<math><mi>z</mi></math>")])
            return res[0][0] not in ("OK", "ERR"), {"script": "fresh session: get_navigation_node_from_braille_position(3) before any set_mathml", "results": res}
        # role-level recipe: UEB expression long enough for a grade-1 passage; cells 0..2 belong to no node
        res = mcprobe([("pref", "BrailleCode UEB"), ("pref", "BrailleNavHighlight FirstChar"),
                       ("mathml", "<math><mi>x</mi><mo>=</mo><mfrac><mrow><mo>-</mo><mi>b</mi><mo>&#xB1;</mo><msqrt><msup><mi>b</mi><mn>2</mn></msup><mo>-</mo><mn>4</mn><mi>a</mi><mi>c</mi></msqrt></mrow><mrow><mn>2</mn><mi>a</mi></mrow></mfrac></math>"),
                       ("braille", ""), "nodeat 0", ("getpref", "BrailleNavHighlight"), "nodeat 1", ("getpref", "BrailleNavHighlight")])
        bad = [r for r in res if r[0] != "OK"] or [r for r in (res[5], res[7]) if r[1] != "FirstChar"]
        return bool(bad), {"script": "UEB, BrailleNavHighlight=FirstChar, quadratic formula, get_navigation_node_from_braille_position(0), get_preference", "results": res[3:]}
    return crate, dict(id="K-C20-d.query_restores_highlight_pref", harness="braille_position_query_restores_highlight_pref", api=api,
                       role=lambda v, o: "pref-not-restored" if "left at EndPoints" in o else ("no-expression-set-panic" if "no expression has been set" in o else "panic-or-offset"),
                       covers=["successful query reachable", "failing search reachable", "no expression set reachable"],
                       claim="Ok exit => BrailleNavHighlight has the value it had before the call; no unwrap / subtraction panic under the search contract")


# ======================================================================================================================
# K-C20-f: get_braille_position hands back exactly the range braille_mathml computed for the navigation node (whatever the character offset)
POS_SHIM = r"""
pub type Result<T> = core::result::Result<T, ()>;
pub struct Pkg;
pub struct Cell0;
impl Cell0 { fn borrow(&self) -> Pkg { Pkg } }
#[derive(Clone, Copy)] pub struct Element;
fn get_element(_p: &Pkg) -> Element { Element }
static mut NAV: (usize, bool) = (0, true);          // character offset of the navigation position; whether the id query succeeds
static mut RANGE: (usize, usize, usize, bool) = (0, 0, 0, true);   // start, end, cells of the braille; whether braille_mathml succeeds
fn get_navigation_mathml_id() -> Result<(String, usize)> { if unsafe { NAV.1 } { Ok((String::from("n1"), unsafe { NAV.0 })) } else { Err(()) } }
mod crate_braille { pub fn braille_mathml(_m: super::Element, _id: &str) -> super::Result<(String, usize, usize)> { let r = unsafe { super::RANGE }; if r.3 { Ok((String::from("b"), r.0, r.1)) } else { Err(()) } } }
fn position_body(package_instance: &Cell0) -> Result<(usize, usize)> CLOSURE_BLOCK
HARNESS(braille_position_is_the_highlighted_range, 4) {
    let (start, end, cells) = (sym::usize(), sym::usize(), sym::usize());
    sym::assume(start <= end && end <= cells && cells <= 1000);          // contract of braille_mathml (K-C20-e)
    let offset = sym::usize();
    sym::assume(offset <= 1000);
    unsafe { NAV = (offset, sym::bool()); RANGE = (start, end, cells, sym::bool()); }
    let r = position_body(&Cell0);
    cover!(r.is_ok() && offset > 0, "navigation position with a character offset reachable");
    cover!(r.is_err(), "failing query reachable");
    if let Ok((s, e)) = r {
        assert!(s <= e && e <= cells, "get_braille_position: position outside the braille string (start <= end <= length)");
        assert!(s == start && e == end, "get_braille_position does not return the range computed for the navigation node");
    }
}
"""


def api_position(vals=None, out=None):
    res = mcprobe([("pref", "BrailleCode Nemeth"), ("pref", "BrailleNavHighlight FirstChar"), ("mathml", "<math><mi>x</mi><mo>+</mo><mn id='n'>25</mn></math>"), ("setnav", "n 1"), "brpos", ("braille", "n")])
    if any(r[0] != "OK" for r in res):
        return True, {"results": res}
    s_, e_ = [int(x) for x in res[4][1].split("\t")]
    n = len(res[5][1])
    return not (s_ <= e_ <= n), {"script": "Nemeth, x + <mn id='n'>25</mn>, set_navigation_node(n, 1), get_braille_position", "position": [s_, e_], "cells": n}


def position_lemma(run):
    itf = _sl.Source.get("src/interface.rs")
    f = itf.find("fn get_braille_position")
    blk = itf.find_bracketed("MATHML_INSTANCE . with ( | package_instance | {", within=f)[0]
    block = blk.text[blk.text.index("{"):]
    block = block[:block.rindex("}") + 1]
    run.uses(_sl.Span(itf, blk.start, blk.end, "interface.rs::get_braille_position::closure"))
    crate = _kr.Crate("c20pos2", POS_SHIM.replace("CLOSURE_BLOCK", block.replace("crate::braille::braille_mathml", "crate_braille::braille_mathml")))
    run.bound("K-C20-f", "the closure body of get_braille_position verbatim; any range start <= end <= cells <= 1000 from braille_mathml, any character offset <= 1000 of the navigation position, either call may fail")
    run.assume("K-C20-f: braille_mathml / get_navigation_mathml_id replaced by arbitrary outcomes satisfying their contracts (range inside the braille: K-C20-e)")
    return crate, dict(id="K-C20-f.braille_position_is_highlighted_range", harness="braille_position_is_the_highlighted_range", api=lambda v, o: api_position(),
                       role=lambda v, o: "position-outside-braille" if "outside the braille" in o else "position-not-the-range",
                       covers=["navigation position with a character offset reachable", "failing query reachable"],
                       claim="Ok((s, e)) => (s, e) is the range braille_mathml computed, so start <= end <= length for every character offset")


# ======================================================================================================================
# K-C20-e: highlight_braille_chars reports positions inside the braille string that agree with the cells carrying dots 7-8
HBC_HARNESS = r'''
fn cells(s: &str) -> usize { let mut n = 0; for _c in s.chars() { n += 1; } n }
fn check(braille: &str, code: &str, fill: bool) {
    let n = cells(braille);
    let mut first = n; let mut last = 0; let mut k = 0;
    for c in braille.chars() { if ((c as u32) & 0xC0) == 0xC0 && (c as u32) >= 0x2800 { if first == n { first = k; } last = k; } k += 1; }
    let (out, start, end) = highlight_braille_chars(braille.to_string(), code, fill);
    assert!(start <= end && end <= n, "highlight positions are not inside the braille string (start <= end <= length in cells)");
    assert!(cells(&out) == n, "highlighting changed the number of cells");
    if first == n { assert!(start == 0 && end == n, "nothing highlighted: the whole string must be reported"); }
    else { assert!(end == last && start <= first, "reported end is not the last highlighted cell / start lies after the first highlighted cell"); }
    core::mem::forget(out);
}
/// braille that also holds characters which are not 3-byte braille cells (text the rules could not translate, e.g. for an unsupported element):
/// the reported cell positions are not meaningful then, but the call must still return and keep every character
fn check_mixed(braille: &str, code: &str, fill: bool) {
    let n = cells(braille);
    let (out, start, end) = highlight_braille_chars(braille.to_string(), code, fill);
    assert!(cells(&out) == n, "highlighting changed the number of characters");
    assert!(start <= end, "start after end");
    core::mem::forget(out);
}
HBC_CASES
// str::find / rfind with the fn-item pattern `is_highlighted` (zero-sized): scan chars
#[cfg(kani)] fn hl_find<P>(s: &str, _p: P) -> Option<usize> { let mut i = 0; for c in s.chars() { if is_highlighted(c) { return Some(i); } i += c.len_utf8(); } None }
#[cfg(kani)] fn hl_rfind<P>(s: &str, _p: P) -> Option<usize> { let mut i = 0; let mut r = None; for c in s.chars() { if is_highlighted(c) { r = Some(i); } i += c.len_utf8(); } r }
'''


def api_mixed(vals=None, out=None):
    # a character Nemeth has no braille for (passed through by design, C07) inside the five-cell look-back window of the highlighted cell
    expr = "<math><mi>a</mi><mo>+</mo><mi>b</mi><mo>+</mo><mi>c</mi><mo>+</mo><mn>\u0663</mn><mo>+</mo><mi id='x'>x</mi></math>"
    res = mcprobe([("pref", "BrailleCode Nemeth"), ("mathml", expr), ("braille", ""), ("braille", "x"), ("setnav", "x 0"), "brpos", "nodeat 8"])
    return any(r[0] in ("PANIC", "ABORT") for r in res), {"script": "Nemeth, a+b+c+(ARABIC-INDIC DIGIT THREE, no Nemeth cell: passed through)+x; get_braille(id of x) / get_braille_position / get_navigation_node_from_braille_position", "results": res[2:]}


def positions_lemma(run):
    b = _sl.Source.get("src/braille.rs")
    sp = bk.slices(run)
    hbc = b.find("fn highlight_braille_chars")
    run.uses(hbc)
    body = prelude.STR_STUBS + prelude.PHF_MOCK + "\n".join(sp[k].text for k in ("is_highlighted", "highlight", "unhighlight", "UEB_PREFIXES", "i_start_nemeth", "i_start_ueb", "check_for_typeform")) + \
        "\n" + hbc.text + HBC_HARNESS
    cases = [("none", "⠁⠃⠉"), ("first", "⣁⠃⠉"), ("endpoints", "⠁⣃⣉"), ("last", "⠁⠃⣉"), ("after_indicator", "⠠⣁⠃⣉")]
    case_text = "\n".join('HARNESS(highlight_positions_%s, 16, [str::find => hl_find, str::rfind => hl_rfind, str::starts_with => stubs::starts_with]) {\n'
                          '    let fill = sym::bool();\n    let nemeth = sym::bool();\n    cover!(fill && nemeth, "fill range in Nemeth reachable");\n'
                          '    check("%s", if nemeth { "Nemeth" } else { "UEB" }, fill);\n}' % c for c in cases)
    mixed = [("mixed_ascii_before", "\u2800\u2800\u2800\u2800a\u2800\u2800\u28cd\u280e"), ("mixed_ascii_first", "u\u283cko\u2800\u28cd\u280e\u28ac")]
    case_text += "\n" + "\n".join('HARNESS(highlight_positions_%s, 16, [str::find => hl_find, str::rfind => hl_rfind, str::starts_with => stubs::starts_with]) {\n'
                                   '    let fill = sym::bool();\n    let nemeth = sym::bool();\n    cover!(fill && nemeth, "fill range in Nemeth reachable");\n'
                                   '    check_mixed("%s", if nemeth { "Nemeth" } else { "UEB" }, fill);\n}' % c for c in mixed)
    crate = _kr.Crate("c20pos", body.replace("HBC_CASES", case_text), native_deps=prelude.PHF_NATIVE_DEP)
    run.bound("K-C20-e", "5 literal braille strings (nothing / first / end points / last cell highlighted / highlighted start after an indicator) and 2 strings that also hold ASCII characters, x {Nemeth, UEB} x fill_range; one harness per string")
    run.assume("str::find / rfind with the `is_highlighted` function pattern stubbed by a char scan; starts_with stubbed; every path runs on a literal string")

    def api(vals, out):
        res = mcprobe([("pref", "BrailleCode UEB"), ("mathml", "<math><mn id='n'>2</mn><mo id='t'>&#x2062;</mo><mi id='x'>x</mi></math>"), ("braille", ""), ("setnav", "t 0"), "brpos"])
        if any(r[0] != "OK" for r in res):
            return True, {"results": res}
        n = len(res[2][1])
        s, e = [int(x) for x in res[4][1].split("\t")]
        return not (s <= e <= n), {"script": "UEB 2(invisible times)x: navigation node = the invisible operator (no cell of its own); get_braille_position", "braille_cells": n, "position": [s, e]}
    deep = ("endpoints", "after_indicator")      # 115-300 s of solver time each: thorough tier only; the other five strings stay in the quick tier
    return crate, [dict(id="K-C20-e.highlight_positions." + c[0], harness="highlight_positions_" + c[0], api=api, role=lambda v, o: "position-outside-braille",
                        covers=["fill range in Nemeth reachable"], deep=c[0] in deep,
                        claim="start <= end <= number of cells; end = last cell with dots 7-8; nothing highlighted => (0, length)") for c in cases] + \
        [dict(id="K-C20-e.highlight_positions." + c[0], harness="highlight_positions_" + c[0], api=lambda v, o: api_mixed(), role=lambda v, o: "untranslated-text-in-braille-panic",
              covers=["fill range in Nemeth reachable"], claim="no panic and no character lost when the braille also holds non-braille characters") for c in mixed]
