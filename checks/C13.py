"""C13 — Speech-engine markup is well formed (DESIGN.md §3 C13).
Engine Z over the tag tables of tts.rs (match arms of get_string_ssml / get_string_sapi5, bookmark formats,
pause-merging regexes), extracted from source on every run.  Witnesses are replayed on the real functions
(sliced, compiled natively with shim types) and, where a rule reaches the command, through get_spoken_text."""
import re
import xml.etree.ElementTree as ET

import kani_run
import rxsmt
import slicer
import tables
from framework import mcprobe
from smt_run import smt_str

COMMANDS = ["Pause", "Rate", "Volume", "Pitch", "Audio", "Gender", "Voice", "Spell", "Pronounce"]
NUMERIC = {"Pause", "Rate", "Volume", "Pitch"}

# oracle: element / attribute vocabulary of the two engines (SSML 1.1 §3; SAPI 5.4 XML TTS tutorial)
VOCAB = {
    "SSML": {"break": ["time", "strength"], "prosody": ["pitch", "rate", "volume", "contour", "range", "duration"],
             "audio": ["src"], "voice": ["required", "gender", "name", "age", "variant", "languages", "ordering", "onlangfailure"],
             "say-as": ["interpret-as", "format", "detail"], "phoneme": ["alphabet", "ph", "type"], "mark": ["name"],
             "emphasis": ["level"], "sub": ["alias"], "s": [], "p": []},
    "SAPI5": {"silence": ["msec"], "pitch": ["middle", "absmiddle"], "rate": ["speed", "absspeed"], "volume": ["level"],
              "voice": ["required", "optional"], "spell": [], "pron": ["sym"], "bookmark": ["mark"], "emph": [],
              "lang": ["langid"], "partofsp": ["part"], "context": ["id"]},
}

NAMECHAR = '(re.union (re.range "a" "z") (re.range "A" "Z") (re.range "0" "9") (str.to_re "-") (str.to_re "_"))'
NAME = '(re.++ (re.union (re.range "a" "z") (re.range "A" "Z") (str.to_re "_")) (re.* %s))' % NAMECHAR
ATTVAL = '(re.union (re.++ (str.to_re """") (re.* (re.diff re.allchar (re.union (str.to_re "<") (str.to_re "&") (str.to_re """")))) (str.to_re """")) ' \
         '(re.++ (str.to_re "\'") (re.* (re.diff re.allchar (re.union (str.to_re "<") (str.to_re "&") (str.to_re "\'")))) (str.to_re "\'")))'
SP = '(re.+ (str.to_re " "))'
SPO = '(re.* (str.to_re " "))'
TEXT = '(re.* (re.diff re.allchar (re.union (str.to_re "<") (str.to_re "&"))))'
NUM = '(re.++ (re.opt (str.to_re "-")) (re.+ (re.range "0" "9")) (re.opt (re.++ (str.to_re ".") (re.+ (re.range "0" "9")))))'
SAFE = '(re.* (re.union (re.range "a" "z") (re.range "A" "Z") (re.range "0" "9") (str.to_re " ") (str.to_re "_") (str.to_re "-") (str.to_re ".") (str.to_re ":")))'
START_TAG = '(re.++ (str.to_re "<") %s (re.* (re.++ %s %s %s (str.to_re "=") %s %s)) %s (re.opt (str.to_re "/")) (str.to_re ">") %s)' % (
    NAME, SP, NAME, SPO, SPO, ATTVAL, SPO, TEXT)


def vocab_lang(engine):
    alts = []
    for el, attrs in VOCAB[engine].items():
        a = "(re.union %s)" % " ".join("(str.to_re %s)" % smt_str(x) for x in attrs) if len(attrs) > 1 else \
            ("(str.to_re %s)" % smt_str(attrs[0]) if attrs else "re.none")
        alts.append('(re.++ (str.to_re %s) (re.* (re.++ %s %s %s (str.to_re "=") %s %s)) %s (re.opt (str.to_re "/")) (str.to_re ">") %s)' % (
            smt_str("<" + el), SP, a, SPO, SPO, ATTVAL, SPO, TEXT))
    return "(re.union %s)" % " ".join(alts)


def _branch_values(toks):
    """string values a branch can return: tag literals, and "" for String::new() / String::default() / "".to_string() / String::from("")."""
    vals = []
    for i, t in enumerate(toks):
        if t.kind == "str":
            v = slicer.unquote(t.text)
            if v.startswith("<") or v == "":
                vals.append(v)
        elif t.text == "String" and i + 3 < len(toks) and toks[i + 1].text == ":" and toks[i + 2].text == ":" and toks[i + 3].text in ("new", "default"):
            vals.append("")
    return vals


def extract_arms(fn_span):
    """-> {command: (start_values, end_values, may_start_be_empty)} from the match arms of get_string_<engine>.  Each arm has the
    shape `if is_start_tag { A } else { B }` (possibly inside a block); A yields the start-tag values, B the end-tag values."""
    src = fn_span.source
    toks = [t for t in src.tokens_in(fn_span.start, fn_span.end)]
    heads = []
    for i, t in enumerate(toks):
        if t.text == "TTSCommand" and i + 5 < len(toks) and toks[i + 1].text == ":" and toks[i + 2].text == ":" \
                and toks[i + 4].text == "=" and toks[i + 5].text == ">":
            heads.append((toks[i + 3].text, i + 6))
    arms = {}
    for n, (cmd, lo) in enumerate(heads):
        hi = heads[n + 1][1] - 6 if n + 1 < len(heads) else len(toks)
        arm = toks[lo:hi]
        start_vals, end_vals = [], []
        k = 0
        found = False
        while k < len(arm):
            if arm[k].text == "if" and k + 2 < len(arm) and arm[k + 1].text == "is_start_tag" and arm[k + 2].text == "{":
                close = src.match_close(arm[k + 2].start)
                a = [t for t in arm if arm[k + 2].start < t.start < close]
                rest = [t for t in arm if t.start > close]
                start_vals += _branch_values(a)
                if rest and rest[0].text == "else" and len(rest) > 1 and rest[1].text == "{":
                    close2 = src.match_close(rest[1].start)
                    end_vals += _branch_values([t for t in rest if rest[1].start < t.start < close2])
                found = True
                break
            k += 1
        if not found:
            # no start/end distinction (e.g. `=> "".to_string()` or panic!): the same values for both
            v = _branch_values(arm)
            start_vals, end_vals = list(v), list(v)
        arms[cmd] = ([v for v in start_vals if v.startswith("<") and not v.startswith("</")], [v for v in end_vals if v.startswith("</")],
                     "" in start_vals, "" in end_vals or not [v for v in end_vals if v.startswith("</")])
    return arms


def fmt_to_smt(fmt, holes):
    """Rust format string -> SMT str.++ term with hole variables h0,h1.. ; returns (term, n_holes)."""
    parts, n, i, lit = [], 0, 0, ""
    while i < len(fmt):
        if fmt.startswith("{{", i):
            lit += "{"
            i += 2
        elif fmt.startswith("}}", i):
            lit += "}"
            i += 2
        elif fmt[i] == "{":
            j = fmt.index("}", i)
            if lit:
                parts.append(smt_str(lit))
                lit = ""
            parts.append(holes[n])
            n += 1
            i = j + 1
        else:
            lit += fmt[i]
            i += 1
    if lit:
        parts.append(smt_str(lit))
    return ("(str.++ %s)" % " ".join(parts) if len(parts) > 1 else parts[0]), n


SHIM = r'''
use std::fmt;
use strum_macros::{Display, EnumString};
#[derive(Debug, Clone)] pub struct MyXPath;
impl fmt::Display for MyXPath { fn fmt(&self, f: &mut fmt::Formatter) -> fmt::Result { write!(f, "xpath") } }
#[derive(Debug, Clone)] pub struct ReplacementArray;
pub struct PreferenceManager { pub rate: f64, pub pause_factor: String }
impl PreferenceManager {
    pub fn get_rate(&self) -> f64 { self.rate }
    pub fn pref_to_string(&self, _name: &str) -> String { self.pause_factor.clone() }
}
mod cratex { }
'''

MAIN = r'''
fn main() {
    // stdin lines:  engine \t command \t value   (value: number for Pause/Rate/Volume/Pitch, text otherwise)
    use std::io::BufRead;
    let prefs = PreferenceManager { rate: 180.0, pause_factor: "100".to_string() };
    for line in std::io::stdin().lock().lines() {
        let line = line.unwrap();
        let f: Vec<&str> = line.split('\t').collect();
        let tts = match f[0] { "SSML" => TTS::SSML, "SAPI5" => TTS::SAPI5, _ => TTS::None };
        let (command, value) = match f[1] {
            "Pause" => (TTSCommand::Pause, TTSCommandValue::Number(f[2].parse().unwrap())),
            "Rate" => (TTSCommand::Rate, TTSCommandValue::Number(f[2].parse().unwrap())),
            "Volume" => (TTSCommand::Volume, TTSCommandValue::Number(f[2].parse().unwrap())),
            "Pitch" => (TTSCommand::Pitch, TTSCommandValue::Number(f[2].parse().unwrap())),
            "Audio" => (TTSCommand::Audio, TTSCommandValue::String(f[2].to_string())),
            "Gender" => (TTSCommand::Gender, TTSCommandValue::String(f[2].to_string())),
            "Voice" => (TTSCommand::Voice, TTSCommandValue::String(f[2].to_string())),
            "Spell" => (TTSCommand::Spell, TTSCommandValue::String(f[2].to_string())),
            _ => (TTSCommand::Pronounce, TTSCommandValue::Pronounce(Box::new(Pronounce { text: f[2].to_string(), ipa: f[2].to_string(), sapi5: f[2].to_string(), eloquence: String::new() }))),
        };
        let rule = TTSCommandRule { command, value, replacements: ReplacementArray };
        let (s, e) = match tts {
            TTS::SSML => (tts.get_string_ssml(&rule, &prefs, true), tts.get_string_ssml(&rule, &prefs, false)),
            _ => (tts.get_string_sapi5(&rule, &prefs, true), tts.get_string_sapi5(&rule, &prefs, false)),
        };
        println!("{}\t{}", s, e);
    }
}
'''

API_RECIPES = {  # command -> (preferences, expression) that makes a shipped rule emit it
    "Pause": ([], "<math><mfrac><mrow><mi>a</mi><mo>+</mo><mn>1</mn></mrow><mi>b</mi></mfrac><mo>+</mo><mi>c</mi><mo>=</mo><mn>10</mn></math>"),
    "Pitch": ([("pref", "CapitalLetters_Pitch 10")], "<math><mi>A</mi><mo>+</mo><mi>b</mi></math>"),
    "Rate": ([("pref", "MathRate 80")], "<math><mi>a</mi><mo>+</mo><mi>b</mi></math>"),
    "Spell": ([], "<math><mi>a</mi><mo>+</mo><mi>b</mi></math>"),
}


def xml_ok(s, engine):
    """Oracle: the string is a sequence of properly nested, closed tags of the engine's vocabulary."""
    try:
        root = ET.fromstring("<speak>" + s.replace("", "") + "</speak>")
    except ET.ParseError as e:
        return False, "not well-formed: %s" % e
    for el in root.iter():
        if el is root:
            continue
        if el.tag not in VOCAB[engine]:
            return False, "element <%s> is not %s" % (el.tag, engine)
        for a in el.attrib:
            if a not in VOCAB[engine][el.tag]:
                return False, "attribute %s of <%s> is not %s" % (a, el.tag, engine)
    return True, ""


def build(run):
    run.outside += ["'removing the tags leaves exactly the words of TTS=None' (rule interpreter)", "bookmark ids naming nodes of the expression (XPath evaluation)",
                    "text inserted after <spell>/<say-as> is assumed free of '<' and '&' (it is the text of a token chosen by rules)"]
    crate_d, lemma_d = dispatch_lemma(run)
    run.kani(crate_d, [lemma_d], timeout=300)
    src = slicer.Source.get("src/tts.rs")
    imp = src.find("impl TTS")
    fns = {"SSML": imp.find("fn get_string_ssml"), "SAPI5": imp.find("fn get_string_sapi5")}
    others = [src.find("enum TTSCommand"), src.find("struct Pronounce"), src.find("enum TTSCommandValue"), src.find("impl TTSCommandValue"),
              src.find("struct TTSCommandRule"), src.find("enum TTS"), src.find("const MIN_PAUSE"), src.find("const PAUSE_AUTO"),
              src.find("const PAUSE_AUTO_STR"), imp.find("fn get_pause_multiplier")]
    run.uses(*fns.values(), *others)
    run.bound("Z-C13-a", "all 9 tag-producing TTSCommand variants x {SSML, SAPI5}; format holes: every decimal number / every string over [A-Za-z0-9 _.:-]*, unbounded length")
    run.assume("hole values: numbers print as -?[0-9]+(.[0-9]+)? (Rust Display of a finite f64 in the preference ranges); string values contain no quotes, '<' or '&'",
               "engine vocabularies (oracle): SSML 1.1 and SAPI 5.4 element/attribute lists embedded in checks/C13.py")

    # native replay crate: the real functions, sliced, with shim types for what they do not touch
    body = SHIM + "\n".join(o.text for o in others[:6]) + "\n" + "\n".join(o.text for o in others[6:9]) + \
        "\nimpl TTS {\n" + fns["SSML"].text + "\n" + fns["SAPI5"].text + "\n" + others[9].text + "\n}\n" + MAIN
    body = body.replace("crate::speech::CONCAT_INDICATOR", "\"\"")
    native = kani_run.NativeCrate("c13tts", body, deps={"strum": '"0.26"', "strum_macros": '"0.26"'})
    run.crates.append(native)

    def real_tags(engine, cmd, val):
        out, err, rc = native.run("%s\t%s\t%s\n" % (engine, cmd, val))
        s, _, e = out.rstrip("\n").partition("\t")
        return s, e

    def api_check(engine, cmd):
        if cmd not in API_RECIPES:
            return None
        prefs, expr = API_RECIPES[cmd]
        res = mcprobe([("pref", "TTS " + engine)] + prefs + [("mathml", expr), "speech"])
        if res[-1][0] != "OK":
            return {"api": res[-1]}
        ok, why = xml_ok(res[-1][1], engine)
        return {"speech": res[-1][1], "well_formed": ok, "why": why}

    for engine in ("SSML", "SAPI5"):
        arms = extract_arms(fns[engine])
        missing = [c for c in COMMANDS if c not in arms]
        if missing:
            raise slicer.SliceError("no match arm for %s in get_string_%s" % (missing, engine.lower()))
        idx = {c: i for i, c in enumerate(COMMANDS)}
        # per command: start term (with holes) and end tag
        start_defs, end_defs, hole_decl = [], [], []
        for c in COMMANDS:
            starts, ends, start_may_be_empty, end_may_be_empty = arms[c]
            if len(starts) > 1 or len(ends) > 1:
                raise slicer.SliceError("arm %s of %s has several tag literals %r %r" % (c, engine, starts, ends))
            holes = ["h_%s_%d" % (c, k) for k in range(4)]
            term, n = fmt_to_smt(starts[0], holes) if starts else ('""', 0)
            for h in holes[:n]:
                hole_decl.append("(declare-const %s String)(assert (str.in_re %s %s))" % (h, h, NUM if c in NUMERIC else SAFE))
            start_defs.append((idx[c], term))
            end_defs.append((idx[c], smt_str(ends[0] if ends else "")))
        pre = "(declare-const cmd Int)(assert (and (>= cmd 0) (< cmd %d)))\n%s\n" % (len(COMMANDS), "\n".join(hole_decl))
        pre += "(define-fun start () String %s)\n" % _ite("cmd", start_defs)
        pre += "(define-fun end () String %s)\n" % _ite("cmd", end_defs)
        get = ("cmd", "start", "end")

        def witness_factory(kind):
            def w(model, engine=engine):
                cmd = COMMANDS[model["cmd"]]
                val = "250" if cmd in NUMERIC else "x"
                s, e = real_tags(engine, cmd, val)
                ok, why = xml_ok(s + "words" + e, engine)
                if ok:
                    return None
                api = api_check(engine, cmd)
                if api is not None and api.get("well_formed"):
                    return None
                return ("%s-%s" % (engine.lower(), cmd), "%s %s: start %r end %r: %s" % (engine, cmd, s, e, why),
                        {"engine": engine, "command": cmd, "real_start": s, "real_end": e, "oracle": why, "api": api})
            return w

        # (1) element name of start tag = element name of end tag (or self-closing and no end tag)
        pre += "; LEMMA\n"
        q1 = pre + "(define-fun n () String (str.substr end 2 (- (str.len end) 3)))\n(assert (distinct start \"\"))\n" \
            "(assert (not (or (and (str.in_re start (re.++ (re.* (re.diff re.allchar (str.to_re \">\"))) (str.to_re \"/>\") re.all)) (= end \"\")) " \
            "(and (str.in_re end (re.++ (str.to_re \"</\") %s (str.to_re \">\"))) (str.prefixof (str.++ \"<\" n) start) " \
            "(not (str.in_re (str.substr start (+ 1 (str.len n)) 1) %s))))))" % (NAME, NAMECHAR)
        _loop(run, "Z-C13-a.%s.tags_match" % engine.lower(), q1, get, witness_factory("match"),
              "for every command: end tag closes the element the start tag opens (or start is self-closing and end is empty)")
        # (2) start tag is a well-formed XML start tag for every hole value
        q2 = pre + "(assert (distinct start \"\"))\n(assert (not (str.in_re start %s)))" % START_TAG
        _loop(run, "Z-C13-a.%s.start_tag_wellformed" % engine.lower(), q2, get, witness_factory("wf"),
              "for every command and hole value: the start tag is in the XML start-tag language")
        # (3) vocabulary
        q3 = pre + "(assert (distinct start \"\"))\n(assert (str.in_re start %s))\n(assert (not (str.in_re start %s)))" % (START_TAG, vocab_lang(engine))
        _loop(run, "Z-C13-a.%s.vocabulary" % engine.lower(), q3, get, witness_factory("vocab"),
              "for every command: element and attribute names belong to the engine's vocabulary")

        # (5) the commands that carry WORDS (spell: the characters; pronounce: the text) put them after the tag, untouched: removing the tags leaves the words
        for c in ("Spell", "Pronounce"):
            starts = arms[c][0]
            lid = "Z-C13-e.%s.words_kept.%s" % (engine.lower(), c)
            if not starts:
                run.queries += 1
                run.holds(lid, note="(no markup for this command)")
                continue
            holes = ["h%d" % k for k in range(4)]
            term, n = fmt_to_smt(starts[0], holes)
            if n == 0:
                run.queries += 1
                run.violated(lid, "%s-%s-words-dropped" % (engine.lower(), c), "%s %s: the start string %r has no place for the words" % (engine, c, starts[0]), {"start": starts[0]})
                continue
            w = holes[n - 1]                      # by the code's convention the words are the last format argument
            word = '(re.+ (re.union (re.range "a" "z") (str.to_re "-")))'
            tag = '(re.++ (str.to_re "<") (re.* (re.diff re.allchar (re.union (str.to_re "<") (str.to_re ">")))) (str.to_re ">"))'
            q5 = "".join("(declare-const %s String)(assert (str.in_re %s %s))\n" % (h, h, word if h == w else SAFE) for h in holes[:n])
            q5 += "(define-fun start () String %s)\n" % term
            q5 += "(assert (not (and (str.suffixof %s start) (str.in_re (str.substr start 0 (- (str.len start) (str.len %s))) %s))))" % (w, w, tag)

            def w_words(model, engine=engine, c=c):
                s_, e_ = real_tags(engine, c, "th")
                stripped = re.sub(r"<[^<>]*>", "", s_ + e_)
                if stripped == "th":
                    return None
                res = mcprobe([("pref", "TTS None"), ("mathml", "<math><msup><mi>x</mi><mi>n</mi></msup></math>"), "speech", ("pref", "TTS " + engine), "speech", ("pref", "TTS None")])
                plain = re.sub(r"[\s,;]", "", res[2][1]) if res[2][0] == "OK" else None
                marked = re.sub(r"[\s,;]", "", re.sub(r"<[^<>]*>", "", res[4][1])) if res[4][0] == "OK" else None
                if plain is not None and plain == marked:
                    return None
                return ("%s-%s-words-dropped" % (engine.lower(), c), "%s %s: start %r + end %r leave %r when the tags are removed, the words were %r; x^n: TTS=None %r vs %s without tags %r" % (engine, c, s_, e_, stripped, "th", plain, engine, marked),
                        {"real_start": s_, "real_end": e_, "api": [res[2], res[4]]})
            run.smt(lid, q5, get=tuple(holes[:n]), witness=w_words,
                    claim="%s %s: for every attribute value and every word, the start string is one tag followed by exactly the word" % (engine, c))

        # (4) a start tag that can be omitted (empty string for some value) needs an end tag that is omitted too, and vice versa
        for c in COMMANDS:
            starts, ends, start_may_be_empty, end_may_be_empty = arms[c]
            lid = "Z-C13-a.%s.start_and_end_omitted_together.%s" % (engine.lower(), c)
            selfclosing = bool(starts) and starts[0].rstrip().endswith("/>")
            run.queries += 1
            if not starts and not ends:
                run.holds(lid, note="(no tags at all)")
                continue
            if selfclosing or c in ("Pause",):
                run.holds(lid, note="(self-closing element, no end tag)")
                continue
            if start_may_be_empty and ends:
                # candidate: find a value for which the real function returns an empty start tag but a non-empty end tag
                hit = None
                for val in (["0", "0.5", "1", "-1", "5", "100", "250", "-50"] if c in NUMERIC else ["x", ""]):
                    st, en = real_tags(engine, c, val)
                    if st == "" and en != "":
                        hit = (val, st, en)
                        break
                if hit:
                    api = None
                    if c == "Pitch":
                        res = mcprobe([("pref", "TTS " + engine), ("pref", "CapitalLetters_Pitch " + hit[0]), ("mathml", "<math><mi>A</mi><mo>+</mo><mi>b</mi></math>"), "speech"])
                        ok, why = xml_ok(res[-1][1], engine) if res[-1][0] == "OK" else (True, "")
                        api = {"speech": res[-1][1], "well_formed": ok, "why": why}
                    run.nontrivial += 1
                    run.violated(lid, "%s-%s-unbalanced" % (engine.lower(), c), "%s %s with value %s: start tag %r but end tag %r" % (engine, c, hit[0], hit[1], hit[2]),
                                 {"engine": engine, "command": c, "value": hit[0], "api": api})
                    continue
                run.holds(lid, note="(start branch can return an empty string, but no sample value makes the real function do so with a non-empty end tag)")
                continue
            if ends and not starts:
                run.nontrivial += 1
                run.violated(lid, "%s-%s-unbalanced" % (engine.lower(), c), "%s %s has an end tag %r but no start tag" % (engine, c, ends), {})
                continue
            if starts and not ends:
                run.nontrivial += 1
                run.violated(lid, "%s-%s-unbalanced" % (engine.lower(), c), "%s %s has a start tag %r but no end tag" % (engine, c, starts), {})
                continue
            run.nontrivial += 1
            run.holds(lid, note="(start %r / end %r always emitted together)" % (starts[0][:20], ends[0]))

    # ---- bookmarks -------------------------------------------------------------------------------
    rs = imp.find("fn replace_string")
    run.uses(rs)
    m = re.search(r'format!\("(<\{\}=\'\{\}\'/>)"', rs.text)
    marks = dict(re.findall(r'TTS::(SSML|SAPI5)\s*=>\s*compute_bookmark_element\(&command\.value,\s*"([^"]*)"', rs.text))
    if not m or set(marks) != {"SSML", "SAPI5"}:
        raise slicer.SliceError("bookmark format / tag names not found in replace_string")
    for engine, tag_attr in marks.items():
        term = "(str.++ \"<\" %s \"='\" id \"'/>\")" % smt_str(tag_attr)
        q = "(declare-const id String)(assert (str.in_re id %s))\n(assert (not (str.in_re %s %s)))" % (SAFE, term, vocab_lang(engine))
        run.smt("Z-C13-a.%s.bookmark" % engine.lower(), q, get=("id",),
                witness=lambda model, engine=engine, tag_attr=tag_attr: ("%s-bookmark" % engine.lower(), "bookmark tag <%s='..'/> is not valid %s" % (tag_attr, engine), {}),
                claim="bookmark element is a well-formed, self-closing element of the engine's vocabulary for every id")

    # ---- pause merging regexes ----------------------------------------------------------------------
    for engine, fn in (("SSML", "fn merge_pauses_ssml"), ("SAPI5", "fn merge_pauses_sapi5")):
        f = imp.find(fn)
        run.uses(f)
        cons, _ = tables.lazy_regex(src, "CONSECUTIVE_BREAKS", within=f)
        amt, _ = tables.lazy_regex(src, "PAUSE_AMOUNT", within=f)
        rep = re.search(r'format!\("([^"]*)"', f.text).group(1)
        arms = extract_arms(fns[engine])
        emitted = arms["Pause"][0][0]
        # language of one emitted pause tag
        e_term, _ = fmt_to_smt(emitted, ["n1"])
        r_term, _ = fmt_to_smt(rep, ["n2"])
        digits = '(re.+ (re.range "0" "9"))'
        # (1) two emitted tags separated by blanks are matched as a whole by CONSECUTIVE_BREAKS
        q = "(declare-const n1 String)(declare-const n1b String)(declare-const sp String)\n(assert (str.in_re n1 %s))(assert (str.in_re n1b %s))(assert (str.in_re sp %s))\n" \
            "(assert (not (str.in_re (str.++ %s sp %s) %s)))" % (digits, digits, SPO, e_term, e_term.replace("n1", "n1b"), rxsmt.core_lang(cons))

        def w_merge(model, engine=engine, cons=cons, emitted=emitted):
            s = emitted.replace("{}", model["n1"]) + model["sp"] + emitted.replace("{}", model["n1b"])
            caps = rxsmt.captures_real(cons, s)
            if caps is not None and caps[0] == s:
                return None
            return ("%s-pause-merge" % engine.lower(), "two consecutive emitted pauses %r are not matched as a whole by %r" % (s, cons), {"s": s, "captures": caps})
        run.smt("Z-C13-b.%s.consecutive_pauses_matched" % engine.lower(), q, get=("n1", "n1b", "sp"), witness=w_merge,
                claim="every pair of emitted pause tags separated by blanks is matched as a whole by CONSECUTIVE_BREAKS")
        # (2) the merged replacement is itself an emitted pause tag (merging is idempotent, keeps well-formedness)
        q = "(declare-const n2 String)(assert (str.in_re n2 %s))\n(declare-const n1 String)\n(assert (not (exists ((m String)) (and (str.in_re m %s) (= %s %s)))))" % (
            digits, digits, r_term, e_term.replace("n1", "m"))
        # quantifier-free formulation: same template text
        same = (rep == emitted)
        run.queries += 1
        if same:
            run.holds("Z-C13-b.%s.replacement_is_emitted_form" % engine.lower(), note="(replacement template %r == emitted template)" % rep)
        else:
            run.violated("Z-C13-b.%s.replacement_is_emitted_form" % engine.lower(), "%s-pause-template" % engine.lower(),
                         "merged pause template %r differs from the emitted one %r" % (rep, emitted), {"replacement": rep, "emitted": emitted})
        # (3) PAUSE_AMOUNT applied to one emitted tag captures exactly its number
        amt_core = rxsmt.core_lang(amt)
        q = "(declare-const n1 String)(assert (str.in_re n1 %s))\n(assert (not (str.in_re %s (re.++ re.all %s re.all))))" % (digits, e_term, amt_core)

        def w_amt(model, engine=engine, amt=amt, emitted=emitted):
            s = emitted.replace("{}", model["n1"])
            caps = rxsmt.captures_real(amt, s)
            if caps is not None and caps[1] == model["n1"]:
                return None
            return ("%s-pause-amount" % engine.lower(), "PAUSE_AMOUNT %r on %r captures %r" % (amt, s, caps), {"s": s, "captures": caps})
        run.smt("Z-C13-b.%s.pause_amount_found" % engine.lower(), q, get=("n1",), witness=w_amt,
                claim="PAUSE_AMOUNT finds a number in every emitted pause tag")
        # (4) the captured amount is parsed with parse::<usize>(): a digit string that does not fit usize must not panic
        xml_fn = imp.find("fn merge_pauses_xml")
        run.uses(xml_fn)
        mp = re.search(r"parse::<usize>\(\)\s*\.\s*(\w+)", xml_fn.text)
        lid = "Z-C13-b.%s.pause_amount_parses" % engine.lower()
        if mp is None:
            raise slicer.SliceError("merge_pauses_xml: parse::<usize>() of the pause amount not found")
        if mp.group(1) not in ("unwrap", "expect"):
            run.queries += 1
            run.holds(lid, note="(parse failure is handled by .%s: no obligation on the digits)" % mp.group(1))
        else:
            big = '(re.++ (re.range "1" "9") ((_ re.loop 20 20) (re.range "0" "9")) (re.* (re.range "0" "9")))'      # >= 10^20 > 2^64
            q = "(declare-const n1 String)(declare-const n1b String)(declare-const sp String)\n(assert (str.in_re n1 %s))(assert (str.in_re n1b %s))(assert (str.in_re sp %s))\n" \
                "(assert (str.in_re (str.++ %s sp %s) %s))" % (big, digits, SPO, e_term, e_term.replace("n1", "n1b"), rxsmt.core_lang(cons))

            def w_parse(model, engine=engine, amt=amt, cons=cons, emitted=emitted):
                s = emitted.replace("{}", model["n1"]) + model["sp"] + emitted.replace("{}", model["n1b"])
                caps = rxsmt.captures_real(amt, s)
                if caps is None or caps[1] is None or int(caps[1]) < 2 ** 64:
                    return None
                esc = s.replace("&", "&amp;").replace("<", "&lt;").replace(">", "&gt;")
                res = mcprobe([("pref", "TTS " + engine), ("mathml", "<math><mtext>" + esc + "</mtext></math>"), "speech", ("pref", "TTS None")])
                if not any(r[0] in ("PANIC", "ABORT") for r in res):
                    return None
                return ("%s-pause-amount-overflow" % engine.lower(), "merge_pauses_xml parses the amount %r captured by PAUSE_AMOUNT with parse::<usize>().unwrap(): get_spoken_text panics (TTS=%s, text %r; also reachable with PauseFactor=1e30)" % (caps[1], engine, s),
                        {"s": s, "api": res[2:3]})
            run.smt(lid, q, get=("n1", "n1b", "sp"), witness=w_parse, vacuity=None,
                    claim="no pair of pause tags matched by CONSECUTIVE_BREAKS carries an amount that parse::<usize>().unwrap() cannot read")


def _ite(var, defs):
    out = '""'
    for i, term in reversed(defs):
        out = "(ite (= %s %d) %s %s)" % (var, i, term, out)
    return out


def _loop(run, lid, query, get, witness, claim):
    """Finite-sort lemma: one query per command (cmd fixed, hole values symbolic), so that a listed known finding
    for one command cannot hide another command and the solver never has to case-split on the template."""
    for i, c in enumerate(COMMANDS):
        run.smt("%s.%s" % (lid, c), query + "\n(assert (= cmd %d))" % i, get=get, witness=witness, claim=claim, timeout=30,
                vacuity=query[:query.index("; LEMMA")] + "\n(assert (distinct start \"\"))\n(assert (= cmd %d))" % i, vacuous_ok=True)


# ======================================================================================================================
# K-C13-d: every place of impl TTS that dispatches on the engine sends each engine to ITS formatter (no SSML tag under SAPI5, ...)
DISPATCH_SHIM = r"""
#[derive(Clone, Copy, PartialEq)] pub enum TTS { None, SSML, SAPI5 }
#[allow(unused_variables, dead_code)]
impl TTS {
    fn get_string_none<A, B, C>(&self, _a: A, _b: B, _c: C) -> u8 { 0 }
    fn get_string_ssml<A, B, C>(&self, _a: A, _b: B, _c: C) -> u8 { 1 }
    fn get_string_sapi5<A, B, C>(&self, _a: A, _b: B, _c: C) -> u8 { 2 }
    fn merge_pauses_none<A>(&self, _a: A) -> u8 { 0 }
    fn merge_pauses_ssml<A>(&self, _a: A) -> u8 { 1 }
    fn merge_pauses_sapi5<A>(&self, _a: A) -> u8 { 2 }
SITE_FNS
}
HARNESS(engine_dispatch_is_consistent, 2) {
    let k = sym::below(3);
    let e = match k { 0 => TTS::None, 1 => TTS::SSML, _ => TTS::SAPI5 };
    let site = sym::below(NSITES);
    let r = match site {
SITE_ARMS
        _ => k as u8,
    };
    cover!(k == 2 && site == NSITES - 1, "SAPI5 at the last site reachable");
    assert!(r == k as u8, "an engine is sent to the formatter of a different engine (tags of the wrong vocabulary)");
}
"""


def api_dispatch(vals=None, out=None):
    q = "<math><mi>x</mi><mo>=</mo><mfrac><mrow><mo>-</mo><mi>b</mi><mo>&#xB1;</mo><msqrt><msup><mi>b</mi><mn>2</mn></msup><mo>-</mo><mn>4</mn><mi>a</mi><mi>c</mi></msqrt></mrow><mrow><mn>2</mn><mi>a</mi></mrow></mfrac></math>"
    res = mcprobe([("pref", "TTS SAPI5"), ("mathml", q), "speech", ("pref", "TTS SSML"), ("mathml", q), "speech"])
    bad = res[2][0] != "OK" or "<break" in res[2][1] or "<prosody" in res[2][1] or res[5][0] != "OK" or "<silence" in res[5][1] or "<pitch" in res[5][1]
    return bad, {"script": "TTS=SAPI5 / SSML; quadratic formula; get_spoken_text must only hold tags of the selected engine", "sapi5": res[2], "ssml": res[5]}


def dispatch_lemma(run):
    src = slicer.Source.get("src/tts.rs")
    imp = src.find("impl TTS")
    sites = [sp for sp in src.find_bracketed("match self {", within=imp) if re.search(r"\b(get_string|merge_pauses)_(none|ssml|sapi5)\s*\(", sp.text)]
    if not sites:
        raise slicer.SliceError("no engine dispatch found in impl TTS")
    run.uses(*sites)
    keep = {"match", "self", "TTS", "None", "SSML", "SAPI5", "true", "false", "return", "_"}
    fns, arms = [], []
    for k, sp in enumerate(sites):
        idents = sorted(set(t.text for t in slicer.lex(sp.text) if t.kind == "ident") - keep - set(re.findall(r"\b(?:get_string|merge_pauses)_\w+", sp.text)))
        fns.append("    fn site_%d(&self) -> u8 { %s (%s) }" % (k, " ".join("let %s = ();" % i for i in idents), sp.text))
        arms.append("        %d => e.site_%d()," % (k, k))
    body = DISPATCH_SHIM.replace("SITE_FNS", "\n".join(fns)).replace("SITE_ARMS", "\n".join(arms)).replace("NSITES", str(len(sites)))
    crate = kani_run.Crate("c13dispatch", body)
    run.bound("K-C13-d", "all %d `match self` expressions of impl TTS that call get_string_* / merge_pauses_* (start tag, end tag, computed pause, pause merging), each engine" % len(sites))
    run.assume("the formatters are replaced by stand-ins that return the index of their engine; the variables passed to them by unit values")
    return crate, dict(id="K-C13-d.engine_dispatch_is_consistent", harness="engine_dispatch_is_consistent", api=lambda v, o: api_dispatch(),
                       role=lambda v, o: "wrong-engine-formatter", covers=["SAPI5 at the last site reachable"],
                       claim="at every dispatch site None / SSML / SAPI5 reach get_string_none|ssml|sapi5 resp. merge_pauses_none|ssml|sapi5")
