"""C09 — Every node gets a unique id and author ids are kept (DESIGN.md §3 C09).
Engine K (tier D, model DOM): the real add_ids_to_all over small trees whose nodes carry no / an author id (symbolic)."""
import kani_run
import prelude
import slicer
from framework import mcprobe

HARNESS = r'''
mod xpath_functions { pub fn is_leaf(e: crate::Element) -> bool { let n = crate::name(&e); n.len() == 2 || n.len() == 5 && n.as_bytes()[1] == b't' } }   // mi mn mo / mtext
const EXCL_DUPLICATE_AUTHOR_IDS: bool = false;
/// math(mrow(mi, mo, msup-like mrow(mi, mn)))  -- 7 nodes; every node has no id or one of two author ids
fn tree() -> (Element<'static>, [Element<'static>; 7]) {
    let math = dom::new_node(5); let row = dom::new_node(5); let a = dom::new_node(0); let op = dom::new_node(7); let sup = dom::new_node(5); let b = dom::new_node(0); let two = dom::new_node(6);
    math.append_child_id(row.id); row.append_child_id(a.id); row.append_child_id(op.id); row.append_child_id(sup.id); sup.append_child_id(b.id); sup.append_child_id(two.id);
    (math, [math, row, a, op, sup, b, two])
}
// D-C09-a: after add_ids_to_all every node has an id, author ids are untouched, and all ids are distinct
HARNESS(ids_total_kept_unique, 10, [std::string::ToString::to_string => to_string_stub]) {
    let (math, nodes) = tree();
    let mut author = [0u16; 7];
    let mut i = 0;
    while i < 7 {
        let k = sym::below(3);
        if k == 1 { nodes[i].set_attribute_value("id", "ida"); } else if k == 2 { nodes[i].set_attribute_value("id", "idb"); }
        author[i] = nodes[i].attribute("id").unwrap_or(0);
        i += 1;
    }
    if EXCL_DUPLICATE_AUTHOR_IDS {
        let mut na = 0; let mut nb = 0; i = 0;
        while i < 7 { if author[i] == dom::id_code("ida") { na += 1; } if author[i] == dom::id_code("idb") { nb += 1; } i += 1; }
        sym::assume(na <= 1 && nb <= 1);
    }
    let n = add_ids_to_all(math, "M-", 0);
    cover!(n == 7, "no author ids reachable");
    cover!(n == 5, "two author ids reachable");
    i = 0;
    while i < 7 {
        let id = nodes[i].attribute("id");
        assert!(id.is_some(), "a node is left without an id");
        if author[i] != 0 { assert!(id == Some(author[i]), "an author id was replaced"); }
        let mut j = 0;
        while j < i { assert!(nodes[j].attribute("id") != id, "two nodes of the returned MathML carry the same id"); j += 1; }
        i += 1;
    }
}
'''


def api_dup(vals=None, out=None):
    import re
    res = mcprobe([("mathml", "<math><mi id='a'>x</mi><mo id='a'>+</mo><mi>y</mi></math>")])
    ids = re.findall(r"id='([^']*)'", res[0][1]) if res[0][0] == "OK" else []
    return len(ids) != len(set(ids)), {"script": "set_mathml with id='a' on two elements", "ids": ids}


def build(run):
    run.outside += ["that canonicalization keeps an author id on the element carrying that token's text (tree rewrites, DOM)",
                    "ids handed out later (navigation, bookmarks, braille position) belong to the expression (rule interpreter)"]
    itf = slicer.Source.get("src/interface.rs")
    f = itf.find("fn add_ids", "fn add_ids_to_all")
    run.uses(f)
    body = prelude.MINIDOM + prelude.TOSTRING_STUB + f.text.replace("crate::xpath_functions::is_leaf", "xpath_functions::is_leaf") + HARNESS
    crate = kani_run.Crate("c09ids", body)
    run.bound("D-C09-a", "one 7-node tree (math > mrow > mi mo mrow > mi mn); every node without id or with author id 'ida' / 'idb' (3^7 assignments, duplicates included)")
    run.assume("sxd_document replaced by the model DOM (lib/prelude.py MINIDOM): ids kept as (first byte, last byte) codes, injective on the ids used; "
               "ToString stubbed: a count n < 26 is rendered as one letter (the real decimal rendering is injective as well); the crate path of is_leaf is shortened")
    run.kani(crate, [dict(id="D-C09-a.ids_total_kept_unique", harness="ids_total_kept_unique", api=lambda v, o: api_dup() if "same id" in o else (True, "no recipe"),
                          role=lambda v, o: "duplicate-author-ids" if "same id" in o else ("author-id-replaced" if "author id" in o else "node-without-id"),
                          exclusions={"duplicate-author-ids": "DUPLICATE_AUTHOR_IDS"}, covers=["no author ids reachable", "two author ids reachable"],
                          claim="every node has an id; author ids unchanged; all ids pairwise distinct")], timeout=900)

    crate_d, lemma_d = lift_lemma(run)
    run.kani(crate_d, [lemma_d], timeout=600)

    crate_e, lemma_e = mms_lemma(run)
    run.kani(crate_e, [lemma_e], timeout=600)

    crate_g, lemma_g = split_lemma(run)
    run.kani(crate_g, [lemma_g], timeout=600)
    crate_f, lemma_f = bookmark_lemma(run)
    run.kani(crate_f, [lemma_f], timeout=600)
    crate_h, lemma_h = ann_lemma(run)
    run.kani(crate_h, [lemma_h], timeout=600)

    # ---- K-C09-c: the navigation position never becomes the illegal sentinel id (shared with C11: one rule application) ---------------
    from checks import C11
    crate_n, lemmas_n = C11.kernel(run, "c09nav")
    ln = dict(lemmas_n["one_rule_application_keeps_invariants"], id="K-C09-c.navigation_id_is_never_the_sentinel")

    def api_sentinel(vals, out):
        res = mcprobe([("mathml", "<math><mi id='ab'>sin</mi><mo>+</mo><mi>y</mi></math>"), ("setnav", "ab 1"), ("nav", "MoveTo7"), "navid"])
        bad = res[-1][0] != "OK" or res[-1][1].startswith("!not set")
        return bad, {"script": "set_navigation_node(id, offset 1); MoveTo7 (marker never set); get_navigation_mathml_id", "results": res[1:]}
    ln["api"] = api_sentinel
    run.kani(crate_n, [ln], timeout=900)


# ======================================================================================================================
# D-C09-d: when canonicalize_mrows_in_mrow hands back the single child in place of its mrow, a token's author id stays on the token
LIFT_SHIM = r"""
pub trait LocalPart { fn local_part(&self) -> &str; }
impl LocalPart for str { fn local_part(&self) -> &str { self } }
#[derive(Clone, Copy)] pub struct Attribute { code: u16 }
impl Attribute {
    fn name(&self) -> &'static str { "id" }
    fn value(&self) -> &'static str { if self.code == dom::id_code("r") { "r" } else if self.code == dom::id_code("s") { "s" } else { assert!(self.code == dom::id_code("a"), "id outside the model's table"); "a" } }
}
impl<'a> dom::Element<'a> {
    fn attributes(&self) -> Vec<Attribute> { let mut v = Vec::new(); if let Some(code) = self.attribute("id") { v.push(Attribute { code }); } v }
    fn remove_attribute(&self, nm: &str) { if nm == "id" { unsafe { dom::IDCODE[self.id as usize] = 0; } } }
    fn attribute_value(&self, nm: &str) -> Option<&'static str> { if nm == "id" { self.attribute("id").map(|code| Attribute { code }.value()) } else { None } }
}
const CHANGED_ATTR: &str = "data-changed";
type Result<T> = core::result::Result<T, ()>;
pub struct StackInfo<'a> { mrow: Element<'a>, is_operand: bool }
impl<'a> StackInfo<'a> {
    REMOVE_LAST
}
#[allow(unused_mut)]
fn tail<'a>(mut top_of_stack: StackInfo<'a>, is_ok_to_merge_child: bool, saved_mrow_attrs: Vec<Attribute>) -> Result<Element<'a>> {
    SEGMENT
}
HARNESS(lifted_single_child_keeps_its_author_id, 16) {
    let mrow = dom::new_node(5);                                              // the synthesized mrow on top of the parse stack
    let n = 1 + sym::below(2);
    let tok = dom::new_node(0); mrow.append_child_id(tok.id);
    if n == 2 { let t2 = dom::new_node(0); mrow.append_child_id(t2.id); }
    let tok_has_id = sym::bool();
    if tok_has_id { tok.set_attribute_value("id", "a"); }
    let mut saved = Vec::new();
    let mrow_has_id = sym::bool();
    if mrow_has_id { saved.push(Attribute { code: dom::id_code("r") }); }     // the attributes of the author's mrow (saved on entry)
    let ok = sym::bool();
    let r = tail(StackInfo { mrow, is_operand: true }, ok, saved).unwrap();
    cover!(r.id == tok.id && tok_has_id && mrow_has_id, "token with an author id replaces an mrow with an author id reachable");
    cover!(r.id == mrow.id, "mrow kept reachable");
    if tok_has_id { assert!(tok.attribute("id") == Some(dom::id_code("a")), "the author id of a token is overwritten by the id of the mrow it replaces"); }
    if mrow_has_id && r.id == mrow.id { assert!(r.attribute("id") == Some(dom::id_code("r")), "the mrow lost its author id"); }
}
"""


def api_lift(vals=None, out=None):
    import re
    res = mcprobe([("mathml", "<math><mrow id='r'><mi id='a'>x</mi><mspace width='1em'/></mrow></math>")])
    ok = res[0][0] == "OK" and re.search(r"<mi[^>]*id='a'[^>]*>x</mi>", res[0][1])
    return not ok, {"script": "set_mathml(<mrow id='r'><mi id='a'>x</mi><mspace/></mrow>): the mi must keep id='a'", "result": res[0]}


def lift_lemma(run):
    c = slicer.Source.get("src/canonicalize.rs")
    f = c.find("impl CanonicalizeContext", "fn canonicalize_mrows_in_mrow")
    first = c.find_stmt("let mut parsed_mrow = top_of_stack . mrow", within=f)
    seg = slicer.Span(c, first.start, f.end - 1, "canonicalize_mrows_in_mrow::tail")      # f ends with the function's closing brace
    seg_text = seg.text
    rm = c.find("impl StackInfo", "fn remove_last_operand_from_mrow")
    aa = c.find("fn add_attrs")
    run.uses(seg, rm, aa)
    crate = kani_run.Crate("c09lift", prelude.PHF_MOCK + prelude.MINIDOM + aa.text + LIFT_SHIM.replace("REMOVE_LAST", rm.text).replace("SEGMENT", seg_text), native_deps=prelude.PHF_NATIVE_DEP)
    run.bound("D-C09-d", "the statements of canonicalize_mrows_in_mrow after the parse stack is reduced (from `let mut parsed_mrow`), with add_attrs and remove_last_operand_from_mrow; "
              "top-of-stack mrow with 1 or 2 token children; the token and the author's mrow each with or without an author id")
    run.assume("model DOM (MINIDOM) extended with an attribute list holding only the id attribute")
    return crate, dict(id="D-C09-d.lifted_single_child_keeps_its_author_id", harness="lifted_single_child_keeps_its_author_id", api=lambda v, o: api_lift(),
                       role=lambda v, o: "token-id-overwritten-by-mrow-id",
                       covers=["token with an author id replaces an mrow with an author id reachable", "mrow kept reachable"],
                       claim="a token's author id survives when the token replaces its single-child mrow; an mrow that stays keeps its id")


# ======================================================================================================================
# D-C09-e: convert_to_mmultiscripts (empty-base script absorbed into a neighbour) does not put the base's id on the new mmultiscripts as well
MMS_SHIM = r"""
#[allow(unused_mut, unused_variables)]
fn tail<'a>(mrow_children: &mut Vec<ChildOfElement<'a>>, i: usize, i_base: usize, base: Element<'a>,
            mut prescripts: Vec<ChildOfElement<'a>>, mut postscripts: Vec<ChildOfElement<'a>>, i_postscript: usize) -> Element<'a> {
    SEGMENT
    script
}
fn with_id(kind: u8, has: bool, id: &str) -> Element<'static> { let e = dom::new_node(kind); if has { e.set_attribute_value("id", id); } e }
HARNESS(mmultiscripts_does_not_duplicate_the_base_id, 16) {
    // the three shapes convert_to_mmultiscripts produces its tail state from:
    //   0: [x, msup(empty, 2)]            postscript, base is a token            (i = 1, i_base = 0)
    //   1: [msup(empty, 2), x]            prescript                              (i = 0, i_base = 1)
    //   2: [msub(x, 1), msup(empty, 2)]   postscript, base pulled out of a script (i = 1, i_base = 0)
    let shape = sym::below(3);
    let x = with_id(0, sym::bool(), "a");
    let sup = with_id(8, sym::bool(), "s");                                   // the script element with the empty base (model kind msub stands for any script)
    let two = dom::new_node(6);
    let none1 = dom::new_node(1);
    let mut children: Vec<ChildOfElement> = Vec::new();
    let mut pre: Vec<ChildOfElement> = Vec::new();
    let mut post: Vec<ChildOfElement> = Vec::new();
    let script;
    if shape == 0 {
        children.push(ChildOfElement::Element(x)); children.push(ChildOfElement::Element(sup));
        post.push(ChildOfElement::Element(none1)); post.push(ChildOfElement::Element(two));
        script = tail(&mut children, 1, 0, x, pre, post, 2);
    } else if shape == 1 {
        children.push(ChildOfElement::Element(sup)); children.push(ChildOfElement::Element(x));
        pre.push(ChildOfElement::Element(none1)); pre.push(ChildOfElement::Element(two));
        script = tail(&mut children, 0, 1, x, pre, post, 2);
    } else {
        let sub = with_id(8, sym::bool(), "r"); let one = dom::new_node(6); let none2 = dom::new_node(1);
        children.push(ChildOfElement::Element(sub)); children.push(ChildOfElement::Element(sup));
        post.push(ChildOfElement::Element(one)); post.push(ChildOfElement::Element(none2)); post.push(ChildOfElement::Element(none1)); post.push(ChildOfElement::Element(two));
        script = tail(&mut children, 1, 0, x, pre, post, 2);
    }
    cover!(shape == 0 && x.attribute("id").is_some(), "postscript onto a token with an author id reachable");
    cover!(shape == 1 && sup.attribute("id").is_some(), "prescript reachable");
    cover!(shape == 2, "base pulled out of a script reachable");
    assert!(children.len() == 1 && as_element(children[0]).id == script.id, "the mrow does not end up with the one mmultiscripts");
    assert!(name(&script) == "mmultiscripts" && as_element(script.children()[0]).id == x.id, "wrong base");
    let sid = script.attribute("id");
    if sid.is_some() { assert!(sid != x.attribute("id"), "the new mmultiscripts and its base carry the same id"); }
}
"""


def api_mms(vals=None, out=None):
    import re
    res = mcprobe([("mathml", "<math><mrow><mi id='a'>x</mi><msup><mrow/><mn>2</mn></msup><mo>=</mo><mi>y</mi></mrow></math>"),
                   ("mathml", "<math><mrow><mi id='a'>x</mi><msup><mrow/><mn>2</mn></msup></mrow></math>")])
    bad = []
    for r in res:
        ids = re.findall(r"id='([^']*)'", r[1]) if r[0] == "OK" else []
        if r[0] != "OK" or len(ids) != len(set(ids)):
            bad.append(ids)
    return bool(bad), {"script": "set_mathml(x with id='a' followed by a superscript with an empty base)", "results": res}


def mms_lemma(run):
    c = slicer.Source.get("src/canonicalize.rs")
    f = c.find("fn clean_mathml", "fn convert_to_mmultiscripts")
    a = c.find_stmt("let i_multiscript =", within=f)
    b = c.find_stmt("mrow_children . drain (", within=f)
    seg = slicer.Span(c, a.start, b.end, "convert_to_mmultiscripts::assemble")
    aa = c.find("fn add_attrs")
    run.uses(seg, aa)
    crate = kani_run.Crate("c09mms", prelude.PHF_MOCK + prelude.MINIDOM + aa.text + LIFT_SHIM[:LIFT_SHIM.index("const CHANGED_ATTR")] + MMS_SHIM.replace("SEGMENT", seg.text), native_deps=prelude.PHF_NATIVE_DEP)
    run.bound("D-C09-e", "the statements of convert_to_mmultiscripts that assemble the mmultiscripts (from `let i_multiscript` to the drain of the absorbed siblings) with add_attrs; "
              "three shapes (postscript onto a token, prescript, postscript onto the base of a script); every element with or without an author id")
    run.assume("model DOM (MINIDOM) extended with an attribute list holding only the id attribute; the scan that finds base and scripts (choose_base_of_mmultiscripts, add_to_scripts) is replaced by the three states it produces")
    return crate, dict(id="D-C09-e.mmultiscripts_does_not_duplicate_the_base_id", harness="mmultiscripts_does_not_duplicate_the_base_id", api=lambda v, o: api_mms(),
                       role=lambda v, o: "base-id-copied-to-mmultiscripts",
                       covers=["postscript onto a token with an author id reachable", "prescript reachable", "base pulled out of a script reachable"],
                       claim="the id of the new mmultiscripts differs from the id its base keeps")


# ======================================================================================================================
# K-C09-f: the name written into a bookmark mark is the node's id itself, not the id run through the speech rules
BM_SHIM = r"""
/// format! builds its result through core::fmt (does not get through CBMC in useful time): replaced by a recorder of the ARGUMENTS, each followed by U+0001;
/// the literal format string around them is the subject of the Z-C13 tag lemmas
macro_rules! format { ($f:literal $(, $a:expr)*) => {{ let mut s = String::new(); $( s.push_str(AsRef::<str>::as_ref(&$a)); s.push('\u{1}'); )* s }}; }
macro_rules! bail { ($($t:tt)*) => { return Err(Error) }; }
#[derive(Debug)] pub struct Error;
type Result<T> = core::result::Result<T, Error>;
pub trait ChainErr<T> { fn chain_err<F: FnOnce() -> String>(self, f: F) -> Result<T>; }
impl<T> ChainErr<T> for Result<T> { fn chain_err<F: FnOnce() -> String>(self, _f: F) -> Result<T> { self } }
#[derive(Clone, Copy)] pub struct Element<'c>(core::marker::PhantomData<&'c ()>);
pub struct Context;
pub struct SpeechRulesWithContext<'c, 's, 'm> { ctx: Context, p: core::marker::PhantomData<(&'c (), &'s (), &'m ())> }
impl<'c, 's, 'm> SpeechRulesWithContext<'c, 's, 'm> { pub fn get_context(&mut self) -> &mut Context { &mut self.ctx } }
/// stand-in for sxd_xpath's value types: the xpath of a bookmark ("@id", "*[1]/@id", "parent/@id") selects attribute nodes
#[derive(Clone, Copy)] pub struct Node { id: &'static str }
impl Node { pub fn string_value(&self) -> String { String::from(self.id) } }
pub struct Nodeset { n: usize, node: Node }
pub struct NodeIter { left: usize, node: Node }
impl Iterator for NodeIter { type Item = Node; fn next(&mut self) -> Option<Node> { if self.left == 0 { None } else { self.left -= 1; Some(self.node) } } }
impl Nodeset { pub fn size(&self) -> usize { self.n } pub fn iter(&self) -> NodeIter { NodeIter { left: self.n, node: self.node } } pub fn document_order(&self) -> NodeIter { self.iter() } }
#[allow(dead_code)] pub enum Value { String(String), Nodeset(Nodeset), Number(f64), Boolean(bool) }
pub struct MyXPath { id: &'static str }
impl MyXPath {
    /// what MyXPath::replace does with the selected attribute: SpeechRulesWithContext::replace_chars(value) -- the SPOKEN form of the text
    /// (a one-character string is looked up in the unicode rules: 'a' -> "<say-as interpret-as='characters'>a</say-as>" under SSML; longer strings are left alone)
    pub fn replace<T: From<String>>(&self, _r: &mut SpeechRulesWithContext, _m: Element) -> Result<T> {
        Ok(T::from(if self.id.len() == 1 { String::from("<say-as>") } else { String::from(self.id) }))
    }
    pub fn evaluate(&self, _c: &mut Context, _m: Element) -> Result<Value> { Ok(Value::Nodeset(Nodeset { n: 1, node: Node { id: self.id } })) }
    pub fn to_string(&self) -> String { String::new() }
}
#[allow(dead_code)] pub enum TTSCommandValue { Number(f64), String(String), XPath(MyXPath) }
"""

BM_HARNESS = r"""
fn go(id: &'static str, want: &str) {
    let mut r = SpeechRulesWithContext { ctx: Context, p: core::marker::PhantomData };
    let out = compute_bookmark_element(&TTSCommandValue::XPath(MyXPath { id }), "mark name", &mut r, Element(core::marker::PhantomData)).unwrap();
    cover!(id.len() == 1, "one-letter id reachable");
    cover!(id.len() == 4, "generated id reachable");
    assert!(out.as_bytes() == want.as_bytes(), "the bookmark's name is not the id of the node (the id was translated like text to be spoken)");
}
HARNESS(bookmark_name_is_the_raw_id, 40) {
    // solver-selected literal cases: a one-letter id, a two-letter id, an id in MathCAT's own format
    match sym::below(3) { 0 => go("a", "mark name\u{1}a\u{1}"), 1 => go("ab", "mark name\u{1}ab\u{1}"), _ => go("M1-2", "mark name\u{1}M1-2\u{1}") }
}
"""


def api_bookmark(vals=None, out=None):
    res = mcprobe([("pref", "TTS SSML"), ("pref", "Bookmark true"), ("mathml", "<math><mi id='a'>x</mi><mo id='b'>+</mo><mi id='yy'>y</mi></math>"), "speech"])
    sp = res[-1][1] if res[-1][0] == "OK" else ""
    ok = "<mark name='a'/>" in sp and "<mark name='b'/>" in sp and "<mark name='yy'/>" in sp
    return not ok, {"script": "TTS=SSML, Bookmark=true; set_mathml with one-letter author ids; get_spoken_text", "speech": res[-1]}


def bookmark_lemma(run):
    t = slicer.Source.get("src/tts.rs")
    f = t.find("impl TTS", "fn replace_string", "fn compute_bookmark_element")
    run.uses(f)
    crate = kani_run.Crate("c09mark", BM_SHIM + f.text + BM_HARNESS)
    run.bound("K-C09-f", "compute_bookmark_element (tts.rs) compiled verbatim, for the ids 'a', 'ab', 'M1-2' selected by an xpath that yields one attribute node")
    run.assume("sxd_xpath values and MyXPath replaced by stand-ins: MyXPath::replace returns the SPOKEN form of the selected text (as SpeechRulesWithContext::replace_chars does for a one-character string), "
               "MyXPath::evaluate returns the selected attribute node; error text (bail!, chain_err) not built; format! replaced by a recorder of its arguments")
    return crate, dict(id="K-C09-f.bookmark_name_is_the_raw_id", harness="bookmark_name_is_the_raw_id", api=lambda v, o: api_bookmark(),
                       role=lambda v, o: "bookmark-id-translated", covers=["one-letter id reachable", "generated id reachable"],
                       claim="the mark written for a node is <mark name='ID'/> with ID exactly the node's id attribute")



# ======================================================================================================================
# K-C09-h: set_annotation_attrs (the <semantics> arm keeps annotations as data-* attributes of the presentation child) never
#          touches the author's id of that child
ANN_SHIM = r"""
use core::marker::PhantomData;
/// format! replaced by its literal format string (attribute names are `data-...` + arguments; the arguments are evaluated, not rendered)
pub struct Fmt(&'static str);
impl Fmt { fn as_str(&self) -> &'static str { self.0 } }
#[allow(forgetting_copy_types, forgetting_references)]
fn forget_arg<T>(t: T) { core::mem::forget(t) }
macro_rules! format { ($f:literal $(, $a:expr)*) => {{ $( forget_arg($a); )* Fmt($f) }}; }
#[derive(Clone, Copy, PartialEq, Debug)] pub struct Element<'a> { id: u8, p: PhantomData<&'a ()> }
#[derive(Clone, Copy)] pub struct ChildOfElement<'a>(Element<'a>);
#[derive(Clone, Copy)] pub struct Attribute { n: &'static str, v: &'static str }
impl Attribute { pub fn name(&self) -> &'static str { self.n } pub fn value(&self) -> &'static str { self.v } }
fn el<'a>(id: u8) -> Element<'a> { Element { id, p: PhantomData } }
/// semantics = element 0 with children 1 (presentation), 2 (annotation), 3 (annotation-xml); which of its attributes exist is symbolic
static mut SEM_HAS_ID: bool = false;
static mut SEM_HAS_INTENT: bool = false;
static mut ENC: [bool; 4] = [false; 4];
static mut NKIDS: usize = 0;
static mut PRES_ID_WRITTEN: bool = false;
static mut NON_DATA_WRITTEN: bool = false;
static mut DATA_WRITTEN: usize = 0;
pub struct Kids<'a> { i: usize, p: PhantomData<&'a ()> }
impl<'a> Iterator for Kids<'a> { type Item = ChildOfElement<'a>; fn next(&mut self) -> Option<ChildOfElement<'a>> { if self.i < unsafe { NKIDS } { self.i += 1; Some(ChildOfElement(el(self.i as u8))) } else { None } } }
pub struct Attrs { i: usize }
impl Iterator for Attrs { type Item = Attribute; fn next(&mut self) -> Option<Attribute> {
    loop { let i = self.i; self.i += 1;
        if i == 0 { if unsafe { SEM_HAS_ID } { return Some(Attribute { n: "id", v: "s" }); } }
        else if i == 1 { if unsafe { SEM_HAS_INTENT } { return Some(Attribute { n: "intent", v: "f" }); } }
        else { return None; } } } }
impl<'a> Element<'a> {
    pub fn children(&self) -> Kids<'a> { Kids { i: 0, p: PhantomData } }
    pub fn attributes(&self) -> Attrs { Attrs { i: if self.id == 0 { 0 } else { 2 } } }
    pub fn attribute_value(&self, nm: &str) -> Option<&'static str> {
        if nm.len() == 8 { if unsafe { ENC[self.id as usize] } { Some("application/x-tex") } else { None } }        // "encoding"
        else if nm.len() == 2 && self.id == 0 && unsafe { SEM_HAS_ID } { Some("s") } else { None }
    }
    pub fn set_attribute_value(&self, nm: &str, _v: &str) {
        if self.id != 1 { return; }
        let b = nm.as_bytes();
        let data = b.len() > 5 && b[0] == b'd' && b[1] == b'a' && b[2] == b't' && b[3] == b'a' && b[4] == b'-';
        unsafe { if b.len() == 2 && b[0] == b'i' && b[1] == b'd' { PRES_ID_WRITTEN = true; } if data { DATA_WRITTEN += 1; } else { NON_DATA_WRITTEN = true; } }
    }
}
fn as_element<'a>(c: ChildOfElement<'a>) -> Element<'a> { c.0 }
fn name<'a>(e: &Element<'a>) -> &'static str { match e.id { 0 => "semantics", 1 => "mi", 2 => "annotation", _ => "annotation-xml" } }
fn as_text<'a>(_e: Element<'a>) -> &'static str { "y" }
fn mml_to_string<'a>(_e: &Element<'a>) -> String { String::from("m") }
"""

ANN_HARNESS = r"""
HARNESS(annotations_never_overwrite_the_author_id, 17, [str::replace => replace_stub]) {
    unsafe { SEM_HAS_ID = sym::bool(); SEM_HAS_INTENT = sym::bool(); ENC[2] = sym::bool(); ENC[3] = sym::bool(); NKIDS = 1 + sym::below(3); }
    set_annotation_attrs(el(1), el(0));
    cover!(unsafe { SEM_HAS_ID && NKIDS == 3 }, "semantics with its own id and two annotations reachable");
    cover!(unsafe { DATA_WRITTEN == 2 }, "two annotations kept as data attributes reachable");
    assert!(!unsafe { PRES_ID_WRITTEN }, "the id of the presentation child is overwritten while the annotations are attached: the author's id moves to another element");
    assert!(!unsafe { NON_DATA_WRITTEN }, "an attribute that is not a data-* attribute is written onto the presentation child");
}
#[cfg(kani)]
fn replace_stub<P: core::str::pattern::Pattern>(_s: &str, _from: P, _to: &str) -> String { String::from("e") }      // the rendered encoding name is not the subject
"""


def api_ann(vals=None, out=None):
    res = mcprobe([("mathml", "<math><semantics id='s'><mi id='z'>z</mi><annotation encoding='application/x-tex'>z</annotation></semantics></math>")])
    bad = res[0][0] != "OK" or "<mi id='z'" not in res[0][1].replace('"', "'")
    return bad, {"script": "set_mathml(<semantics id='s'> around <mi id='z'>): the returned MathML must still have <mi id='z'>", "result": res[0]}


def ann_lemma(run):
    c = slicer.Source.get("src/canonicalize.rs")
    f = c.find("fn clean_mathml", "fn set_annotation_attrs")
    run.uses(f)
    crate = kani_run.Crate("c09ann", ANN_SHIM + f.text + ANN_HARNESS)
    run.bound("K-C09-h", "set_annotation_attrs verbatim; <semantics> with or without its own id / intent attribute, 0..2 annotation children each with or without an encoding attribute")
    run.assume("K-C09-h: sxd_document elements reduced to (kind, which attributes exist); format! replaced by its literal format string (arguments evaluated, not rendered); str::replace / mml_to_string return an empty string")
    return crate, dict(id="K-C09-h.annotations_keep_author_id", harness="annotations_never_overwrite_the_author_id", api=lambda v, o: api_ann(),
                       role=lambda v, o: "presentation-id-overwritten" if "id of the presentation child" in o else "non-data-attribute-written",
                       covers=["semantics with its own id and two annotations reachable", "two annotations kept as data attributes reachable"],
                       claim="set_annotation_attrs writes only data-* attributes onto the presentation child; its id attribute is never written")


# ======================================================================================================================
# D-C09-g: split_points::split_element (∠ABC -> A B C) does not hand the token's id to the new letters
SPLIT_HARNESS = r"""
HARNESS(split_points_keeps_ids_distinct, 16, [std::string::ToString::to_string => to_string_stub]) {
    let row = dom::new_node(5);
    let shape = dom::new_node(7); row.append_child_id(shape.id);
    let leaf = dom::new_node(0); dom::set_leaf(leaf, 17); row.append_child_id(leaf.id);          // <mi>AB</mi>
    let has_id = sym::bool();
    if has_id { leaf.set_attribute_value("id", "a"); }
    let r = split_element(leaf);
    cover!(has_id, "points token with an author id reachable");
    assert!(r.id == leaf.id && name(&r) == "mrow", "the token is not reused as the mrow");
    let ch = r.children();
    assert!(ch.len() == 2 && as_text(as_element(ch[0])) == "A" && as_text(as_element(ch[1])) == "B", "the letters are not the characters of the token, in order");
    if has_id {
        assert!(r.attribute("id") == Some(dom::id_code("a")), "the author id left the element that took the token's place");
        assert!(as_element(ch[0]).attribute("id") != r.attribute("id") && as_element(ch[1]).attribute("id") != r.attribute("id"), "a new letter element carries the id of the token it came from: the id is no longer unique");
    }
}
"""


def api_split(vals=None, out=None):
    import re
    res = mcprobe([("mathml", "<math><mo>&#x2220;</mo><mi id='abc'>ABC</mi></math>")])
    ids = re.findall(r"id='([^']*)'", res[0][1]) if res[0][0] == "OK" else []
    return res[0][0] != "OK" or len(ids) != len(set(ids)), {"script": "set_mathml(angle sign followed by <mi id='abc'>ABC</mi>)", "ids": ids}


def split_lemma(run):
    c = slicer.Source.get("src/canonicalize.rs")
    f = c.find("fn clean_mathml", "fn split_points", "fn split_element")
    run.uses(f)
    shim = LIFT_SHIM[:LIFT_SHIM.index("const CHANGED_ATTR")]
    body0 = prelude.PHF_MOCK + prelude.MINIDOM + prelude.TOSTRING_STUB + shim + f.text
    helpers = slicer.called_helpers(c, f.text, body0)
    run.uses(*helpers)
    crate = kani_run.Crate("c09split", body0 + "\n".join(h.text for h in helpers) + SPLIT_HARNESS, native_deps=prelude.PHF_NATIVE_DEP)
    run.bound("D-C09-g", "split_element (nested in split_points) verbatim, with whatever free functions of canonicalize.rs it calls, on <mi>AB</mi> with or without an author id (model DOM)")
    run.assume("model DOM (MINIDOM) with an attribute list holding only the id attribute; char::to_string stubbed")
    return crate, dict(id="D-C09-g.split_points_keeps_ids_distinct", harness="split_points_keeps_ids_distinct", api=lambda v, o: api_split(),
                       role=lambda v, o: "split-letters-inherit-id", covers=["points token with an author id reachable"],
                       claim="the token (now an mrow) keeps its id, the new letter elements do not carry it, and they hold the token's characters in order")
