"""C09 — Every node gets a unique id and author ids are kept (DESIGN.md §3 C09).
Engine K (tier D, model DOM): the real add_ids_to_all over small trees whose nodes carry no / an author id (symbolic)."""
import kani_run
import prelude
import slicer
from framework import mcprobe

HARNESS = r'''
mod xpath_functions { pub fn is_leaf(e: crate::Element) -> bool { let n = crate::name(&e); n.len() == 2 || n.len() == 5 && n.as_bytes()[1] == b't' } }   // mi mn mo / mtext
const EXCL_DUPLICATE_AUTHOR_IDS: bool = false;
/// math(mrow(mi, mo, msup-like mrow(mi, mn)))  -- 7 nodes; every node has no id or one of two author ids
fn tree() -> (Element<'static>, [Element<'static>; 7]) {
    let math = dom::new_node(5); let row = dom::new_node(5); let a = dom::new_node(0); let op = dom::new_node(7); let sup = dom::new_node(5); let b = dom::new_node(0); let two = dom::new_node(6);
    math.append_child_id(row.id); row.append_child_id(a.id); row.append_child_id(op.id); row.append_child_id(sup.id); sup.append_child_id(b.id); sup.append_child_id(two.id);
    (math, [math, row, a, op, sup, b, two])
}
// D-C09-a: after add_ids_to_all every node has an id, author ids are untouched, and all ids are distinct
HARNESS(ids_total_kept_unique, 10, [std::string::ToString::to_string => to_string_stub]) {
    let (math, nodes) = tree();
    let mut author = [0u16; 7];
    let mut i = 0;
    while i < 7 {
        let k = sym::below(3);
        if k == 1 { nodes[i].set_attribute_value("id", "ida"); } else if k == 2 { nodes[i].set_attribute_value("id", "idb"); }
        author[i] = nodes[i].attribute("id").unwrap_or(0);
        i += 1;
    }
    if EXCL_DUPLICATE_AUTHOR_IDS {
        let mut na = 0; let mut nb = 0; i = 0;
        while i < 7 { if author[i] == dom::id_code("ida") { na += 1; } if author[i] == dom::id_code("idb") { nb += 1; } i += 1; }
        sym::assume(na <= 1 && nb <= 1);
    }
    let n = add_ids_to_all(math, "M-", 0);
    cover!(n == 7, "no author ids reachable");
    cover!(n == 5, "two author ids reachable");
    i = 0;
    while i < 7 {
        let id = nodes[i].attribute("id");
        assert!(id.is_some(), "a node is left without an id");
        if author[i] != 0 { assert!(id == Some(author[i]), "an author id was replaced"); }
        let mut j = 0;
        while j < i { assert!(nodes[j].attribute("id") != id, "two nodes of the returned MathML carry the same id"); j += 1; }
        i += 1;
    }
}
'''


def api_dup(vals=None, out=None):
    import re
    res = mcprobe([("mathml", "<math><mi id='a'>x</mi><mo id='a'>+</mo><mi>y</mi></math>")])
    ids = re.findall(r"id='([^']*)'", res[0][1]) if res[0][0] == "OK" else []
    return len(ids) != len(set(ids)), {"script": "set_mathml with id='a' on two elements", "ids": ids}


def build(run):
    run.outside += ["that canonicalization keeps an author id on the element carrying that token's text (tree rewrites, DOM)",
                    "ids handed out later (navigation, bookmarks, braille position) belong to the expression (rule interpreter)"]
    itf = slicer.Source.get("src/interface.rs")
    f = itf.find("fn add_ids", "fn add_ids_to_all")
    run.uses(f)
    body = prelude.MINIDOM + prelude.TOSTRING_STUB + f.text.replace("crate::xpath_functions::is_leaf", "xpath_functions::is_leaf") + HARNESS
    crate = kani_run.Crate("c09ids", body)
    run.bound("D-C09-a", "one 7-node tree (math > mrow > mi mo mrow > mi mn); every node without id or with author id 'ida' / 'idb' (3^7 assignments, duplicates included)")
    run.assume("sxd_document replaced by the model DOM (lib/prelude.py MINIDOM): ids kept as (first byte, last byte) codes, injective on the ids used; "
               "ToString stubbed: a count n < 26 is rendered as one letter (the real decimal rendering is injective as well); the crate path of is_leaf is shortened")
    run.kani(crate, [dict(id="D-C09-a.ids_total_kept_unique", harness="ids_total_kept_unique", api=lambda v, o: api_dup() if "same id" in o else (True, "no recipe"),
                          role=lambda v, o: "duplicate-author-ids" if "same id" in o else ("author-id-replaced" if "author id" in o else "node-without-id"),
                          exclusions={"duplicate-author-ids": "DUPLICATE_AUTHOR_IDS"}, covers=["no author ids reachable", "two author ids reachable"],
                          claim="every node has an id; author ids unchanged; all ids pairwise distinct")], timeout=900)

    # ---- K-C09-c: the navigation position never becomes the illegal sentinel id (shared with C11: one rule application) ---------------
    from checks import C11
    crate_n, lemmas_n = C11.kernel(run, "c09nav")
    ln = dict(lemmas_n["one_rule_application_keeps_invariants"], id="K-C09-c.navigation_id_is_never_the_sentinel")

    def api_sentinel(vals, out):
        res = mcprobe([("mathml", "<math><mi id='ab'>sin</mi><mo>+</mo><mi>y</mi></math>"), ("setnav", "ab 1"), ("nav", "MoveTo7"), "navid"])
        bad = res[-1][0] != "OK" or res[-1][1].startswith("!not set")
        return bad, {"script": "set_navigation_node(id, offset 1); MoveTo7 (marker never set); get_navigation_mathml_id", "results": res[1:]}
    ln["api"] = api_sentinel
    run.kani(crate_n, [ln], timeout=900)
