"""C11 — Navigation always rests on a node of the current expression (DESIGN.md §3 C11).
Engine K: one inductive step of the navigation state machine (NavigationState and the state-changing statements of
set_mathml / set_navigation_node_from_id / do_navigate_command_string, all sliced verbatim); the rule engine's
results (NavNode, offset, SpeakExpression, emptiness of speech) are arbitrary."""
import kani_run
import prelude
import slicer
import tables
from framework import mcprobe

SHIMS = r'''
use std::cell::{RefCell, RefMut};
use std::fmt;
use std::time::Instant;
#[cfg(kani)]
fn stub_now() -> Instant { unsafe { core::mem::zeroed() } }

// ---- what the rule engine hands back after match_pattern: arbitrary (set by the harness) -------------------------
pub struct Context { pub nav_node: Option<String>, pub nav_offset: f64, pub speak_expression: bool }
pub type Result<T> = core::result::Result<T, ()>;
#[derive(Clone, Copy)] pub struct Element;
fn context_get_variable(context: &Context, var_name: &str, _mathml: Element) -> Result<(Option<String>, Option<f64>)> {
    if var_name.len() == 7 { return Ok((context.nav_node.clone(), None)); }          // "NavNode"
    if var_name.len() == 13 { return Ok((None, Some(context.nav_offset))); }         // "NavNodeOffset"
    Ok((Some(if context.speak_expression { "true".to_string() } else { "false".to_string() }), None))
}
'''

HARNESS = r'''
const IDS: [&str; 3] = ["aaaaaaaa", "bbbbbbbb", ILLEGAL_NODE_ID];
// all ids have the length of ILLEGAL_NODE_ID: String clone / == over strings of *symbolic length* gave a spurious
// counterexample under CBMC (caught by the native replay), so lengths are kept concrete
fn id_string(k: usize) -> String { assert!(ILLEGAL_NODE_ID.len() == 8); match k { 0 => "aaaaaaaa".to_string(), 1 => "bbbbbbbb".to_string(), _ => ILLEGAL_NODE_ID.to_string() } }
fn pos(k: usize, off: usize) -> NavigationPosition { NavigationPosition { current_node: id_string(k), current_node_offset: off } }
const CMDS: [&'static str; 8] = ["None", "MoveNext", "ZoomIn", "MoveLastLocation", "ReadNext", "DescribeCurrent", "WhereAmI", "SetPlacemarker3"];

fn arbitrary_state(n: usize) -> NavigationState {
    // built directly (NavigationState::new() reserves 1024 entries per stack, which only costs solver time)
    let mut s = NavigationState { position_stack: Vec::with_capacity(4), command_stack: Vec::with_capacity(4), place_markers: Default::default(),
        where_am_i: NavigationPosition::default(), where_am_i_start_time: Instant::now(), mode: String::new(), speak_overview: false };
    let mut i = 0;
    while i < n {
        s.push(pos(sym::below(2), 0), if i == 0 { "None" } else { CMDS[sym::below(8)] });
        i += 1;
    }
    let k = sym::below(MAX_PLACE_MARKERS);
    if sym::bool() { s.place_markers[k] = pos(sym::below(2), 0); }
    if sym::bool() { s.where_am_i = pos(sym::below(2), 0); }
    s
}
fn is_default(p: &NavigationPosition) -> bool { p.current_node.as_bytes() == ILLEGAL_NODE_ID.as_bytes() && p.current_node_offset == 0 }

// the state-changing statement of interface::set_mathml, verbatim
fn on_new_expression(nav_stack: &RefCell<NavigationState>) NEW_EXPR_BLOCK

// K-C11-a.5: setting a new expression leaves nothing that refers to the old one
HARNESS(new_expression_forgets_everything, 12, [std::time::Instant::now => stub_now]) {
    let n = sym::below(3);
    let cell = RefCell::new(arbitrary_state(n));
    cover!(n == 2, "two stack entries reachable");
    on_new_expression(&cell);
    let s = cell.borrow();
    assert!(s.position_stack.is_empty() && s.command_stack.is_empty(), "navigation stack survives set_mathml");
    assert!(is_default(&s.where_am_i), "where_am_i survives set_mathml");
    let mut i = 0;
    while i < MAX_PLACE_MARKERS {
        assert!(is_default(&s.place_markers[i]), "a place marker set on the old expression survives set_mathml");
        i += 1;
    }
    core::mem::forget(s);
}

// the state part of set_navigation_node_from_id, verbatim (closure body)
fn set_nav_node(nav_state: &RefCell<NavigationState>, id: String, offset: usize) -> Result<()> SET_NODE_BLOCK

// K-C11-a.6: set_navigation_node puts exactly (id, offset) on an otherwise empty stack
HARNESS(set_navigation_node_rests_on_id, 12, [std::time::Instant::now => stub_now]) {
    let n = sym::below(3);
    let cell = RefCell::new(arbitrary_state(n));
    let k = sym::below(2);
    let off = sym::below(4);
    // which place markers are set before the call (the marked node is IDS[0] or IDS[1], never the sentinel)
    let mut marked = [false; MAX_PLACE_MARKERS];
    { let s0 = cell.borrow(); let mut i = 0; while i < MAX_PLACE_MARKERS { marked[i] = !is_default(&s0.place_markers[i]); i += 1; } }
    let _ = set_nav_node(&cell, id_string(k), off);
    let s = cell.borrow();
    cover!(n == 2, "two stack entries reachable");
    let mut i = 0;
    while i < MAX_PLACE_MARKERS { assert!(marked[i] == !is_default(&s.place_markers[i]), "set_navigation_node (same expression) changes a place marker: a later MoveToN does not return to the marked node"); i += 1; }
    assert!(s.position_stack.len() == 1 && s.command_stack.len() == 1, "stack is not exactly the new position");
    let (p, c) = s.top().unwrap();
    assert!(p.current_node.as_bytes() == IDS[k].as_bytes() && p.current_node_offset == off && c.len() == 4, "top is not the requested node");
    core::mem::forget(s);
}

// ---- one navigation command: control flow of do_navigate_command_string/apply_navigation_rules around the verbatim
//      state-changing statements; the rule engine's answers are symbolic ---------------------------------------------
fn pop_stack_wrapper(nav_state: &mut NavigationState, count: usize) { pop_stack(nav_state, count) }
POP_STACK_FN

fn one_iteration(mathml: Element, nav_command: &'static str, context: &Context, nav_state: &mut RefMut<NavigationState>) -> Result<()> {
    let nav_position = match context_get_variable(context, "NavNode", mathml)?.0 {
        None => NavigationPosition::default(),
        Some(node) => NavigationPosition { current_node: node, current_node_offset: context_get_variable(context, "NavNodeOffset", mathml)?.1.unwrap() as usize }
    };
    RULE_TAIL_SEGMENT
    Ok(())
}

fn top_of(s: &NavigationState) -> (u8, usize) {
    match s.top() { None => (255, 0), Some((p, _)) => (p.current_node.as_bytes()[0], p.current_node_offset) }
}
fn bottom_cmd_is_none(s: &NavigationState) -> bool { s.command_stack.is_empty() || s.command_stack[0].len() == 4 }

fn step(ci: usize, st: &mut RefMut<NavigationState>, ctx: &Context) {
    // literal command per arm so that the string comparisons are over constants
    let _ = match ci {
        1 => one_iteration(Element, "MoveNext", ctx, st),
        2 => one_iteration(Element, "ZoomIn", ctx, st),
        3 => {
            // the statement of do_navigate_command_string that starts an undo, then the rule application
            let nav_command = "MoveLastLocation";
            { let nav_state = &mut *st; MOVE_LAST_BLOCK }
            one_iteration(Element, nav_command, ctx, st)
        },
        4 => one_iteration(Element, "ReadNext", ctx, st),
        5 => one_iteration(Element, "DescribeCurrent", ctx, st),
        6 => one_iteration(Element, "WhereAmI", ctx, st),
        _ => one_iteration(Element, "SetPlacemarker3", ctx, st),
    };
}

// K-C11-a.1/3/4: ONE rule application (the push + set-placemarker statements of apply_navigation_rules) from any state
HARNESS(one_rule_application_keeps_invariants, 18, [std::time::Instant::now => stub_now, str::starts_with => stubs::starts_with]) {
    let n = 1 + sym::below(2);
    let cell = RefCell::new(arbitrary_state(n));
    let before = top_of(&cell.borrow());
    let ci = 1 + sym::below(7);
    let ctx = Context { nav_node: if sym::bool() { Some(id_string(sym::below(3))) } else { None }, nav_offset: sym::below(3) as f64, speak_expression: sym::bool() };
    {
        let mut st = cell.borrow_mut();
        step(ci, &mut st, &ctx);
    }
    let s = cell.borrow();
    cover!(ci == 1 && s.position_stack.len() == n + 1, "a move that pushes reachable");
    cover!(ci == 4, "read command reachable");
    assert!(s.position_stack.len() == s.command_stack.len(), "position and command stacks out of sync");
    let base = if ci == 3 { n - 1 } else { n };                                // an undo pops one entry first
    assert!(s.position_stack.len() == base || (ci < 3 && s.position_stack.len() == base + 1), "stack changed by something other than one push (an undo must only pop)");
    let after = top_of(&s);
    if ci > 3 { assert!(after == before && s.position_stack.len() == n, "a read/describe/where-am-i/set-placemarker command moved the position"); }
    assert!(after.0 != b'!', "the illegal node id became the current position");
    assert!(bottom_cmd_is_none(&s), "bottom entry lost");
    core::mem::forget(s); core::mem::forget(ctx);
}

// K-C11-a.2: pop_stack (retry clean-up) keeps the final position on top, never empties the stack, keeps the stacks in sync, and removes
// only the positions of the `count` retry iterations below it (everything that was current before the command stays undoable)
fn cmd_of(k: usize) -> &'static str { match k { 0 => "MoveNext", 1 => "ZoomIn", _ => "ReadNext" } }
HARNESS(pop_stack_keeps_final_position, 18, [std::time::Instant::now => stub_now, str::starts_with => stubs::starts_with]) {
    let n = 3 + sym::below(2);                      // bottom entry + 2..3 entries above it (MINIVEC capacity 4)
    let mut st0 = NavigationState { position_stack: Vec::with_capacity(4), command_stack: Vec::with_capacity(4), place_markers: Default::default(),
        where_am_i: NavigationPosition::default(), where_am_i_start_time: Instant::now(), mode: String::new(), speak_overview: false };
    // positions are told apart by their offset (same id everywhere keeps every String constant)
    st0.push(pos(0, 0), "None");
    st0.push(pos(0, 1), cmd_of(sym::below(3)));
    st0.push(pos(0, 2), cmd_of(sym::below(3)));
    if n == 4 { st0.push(pos(0, 3), cmd_of(sym::below(3))); }
    let cell = RefCell::new(st0);
    let count = sym::below(3);
    sym::assume(count + 1 < n);                      // rule-engine contract (see assumptions): the retries left at least `count` entries above the bottom one
    let before = top_of(&cell.borrow());
    {
        let mut st = cell.borrow_mut();
        pop_stack_wrapper(&mut st, count);
    }
    let s = cell.borrow();
    cover!(count == 2 && s.position_stack.len() == n - 2, "two intermediate positions dropped");
    cover!(count == 1 && s.position_stack.len() == n, "nothing dropped below a read command");
    assert!(s.position_stack.len() == s.command_stack.len(), "position and command stacks out of sync");
    assert!(!s.position_stack.is_empty() && top_of(&s) == before, "pop_stack lost the final position");
    assert!(bottom_cmd_is_none(&s), "bottom entry lost");
    assert!(s.position_stack.len() + count >= n, "pop_stack removed more positions than the retry iterations pushed (undo would skip a position)");
    // the entries that survive below the top are the oldest ones, in order
    let mut i = 0;
    while i + 1 < s.position_stack.len() { assert!(s.position_stack[i].current_node_offset == i, "a position from before the command was dropped or reordered"); i += 1; }
    core::mem::forget(s);
}

// K-C11-a.8: MoveLastLocation statement: undoing the last move returns to the node that was current before it
HARNESS(move_last_location_restores_previous, 18, [std::time::Instant::now => stub_now]) {
    let n = 1 + sym::below(2);
    let cell = RefCell::new(arbitrary_state(n));
    let k = sym::below(2);
    let prev = top_of(&cell.borrow());
    {
        let mut nav_state = cell.borrow_mut();
        nav_state.push(pos(k, 0), "MoveNext");
        let nav_command = "MoveLastLocation";
        MOVE_LAST_BLOCK
    }
    let s = cell.borrow();
    cover!(n == 2, "two entries reachable");
    assert!(s.position_stack.len() == n && s.command_stack.len() == n, "undo did not remove exactly the last move");
    assert!(top_of(&s) == prev, "undo did not return to the previous node");
    core::mem::forget(s);
}

// K-C11-a.7: SetPlacemarkerN stores the rule's NavNode at index N (and nowhere else); index always < 10
HARNESS(set_placemarker_stores_at_its_index, 18, [std::time::Instant::now => stub_now, str::starts_with => stubs::starts_with]) {
    let cell = RefCell::new(arbitrary_state(1));
    let d = sym::below(10);
    let cmd: &'static str = ["SetPlacemarker0","SetPlacemarker1","SetPlacemarker2","SetPlacemarker3","SetPlacemarker4","SetPlacemarker5","SetPlacemarker6","SetPlacemarker7","SetPlacemarker8","SetPlacemarker9"][d];
    let ctx = Context { nav_node: Some(id_string(1)), nav_offset: 0.0, speak_expression: false };
    {
        let mut st = cell.borrow_mut();
        let mut j = 0;
        while j < MAX_PLACE_MARKERS { st.place_markers[j] = NavigationPosition::default(); j += 1; }
        let _ = one_iteration(Element, cmd, &ctx, &mut st);
    }
    let s = cell.borrow();
    cover!(d == 9, "marker 9 reachable");
    let mut i = 0;
    while i < MAX_PLACE_MARKERS {
        if i == d { assert!(s.place_markers[i].current_node.as_bytes() == b"bbbbbbbb", "marker not stored at its own index"); }
        else { assert!(is_default(&s.place_markers[i]), "another marker was overwritten"); }
        i += 1;
    }
    assert!(convert_last_char_to_number(cmd) == d, "index decoded from the command differs");
    core::mem::forget(s);
}
'''


def api_marker_survives(vals=None, out=None):
    res = mcprobe([("mathml", "<math><mi id='a'>x</mi><mo id='p'>+</mo><mi id='b'>y</mi></math>"), ("nav", "ZoomIn"), ("nav", "SetPlacemarker3"),
                   ("mathml", "<math><mi id='u'>u</mi><mo id='q'>-</mo><mi id='v'>v</mi></math>"), ("nav", "MoveTo3"), "navid", "navmathml", ("nav", "MoveNext")])
    bad = [r for r in res[4:] if r[0] != "OK"] or ([res[5]] if res[5][0] == "OK" and res[5][1].split("\t")[0] not in ("u", "q", "v") and not res[5][1].startswith("M") else [])
    return bool(bad), {"script": "expr1: ZoomIn, SetPlacemarker3; set_mathml(expr2); MoveTo3; get_navigation_mathml_id/get_navigation_mathml; MoveNext", "results": res[4:]}


def api_undo_after_retry(vals=None, out=None):
    """Role-level recipe: a move across an unspoken invisible times (Enhanced mode retries), then undo."""
    res = mcprobe([("pref", "NavMode Enhanced"), ("mathml", "<math><mi id='x'>x</mi><mo id='t1'>&#x2062;</mo><mi id='y'>y</mi><mo id='t2'>&#x2062;</mo><mi id='z'>z</mi></math>"),
                   ("nav", "ZoomIn"), "navid", ("nav", "MoveNext"), "navid", ("nav", "MoveNext"), "navid", ("nav", "MoveLastLocation"), "navid"])
    ids = [r[1].split("\t")[0] for r in res if r[0] == "OK" and "\t" in r[1]]
    # after x -> y -> z, undo must return to y
    bad = len(ids) < 4 or ids[-1] != ids[1]
    return bad, {"script": "ZoomIn, MoveNext, MoveNext, MoveLastLocation on x(it)y(it)z in Enhanced mode", "positions": ids, "results": res[2:]}


def kernel(run, crate_name):
    """-> (crate, {harness: lemma}) ; shared with C09 (the navigation position is always an id of the expression)."""
    return _build(run, crate_name, only_kernel=True)


def build(run):
    return _build(run, "c11nav")


def _build(run, crate_name, only_kernel=False):
    run.outside += ["that the rule-computed NavNode is an id of the expression (navigate.yaml evaluated by the XPath interpreter)",
                    "navigation modes and auto-zoom (rule data)", "undo semantics beyond stack balance"]
    nav = slicer.Source.get("src/navigate.rs")
    itf = slicer.Source.get("src/interface.rs")
    items = [nav.find("const MAX_PLACE_MARKERS"), nav.find("struct NavigationPosition"), nav.find("const ILLEGAL_NODE_ID"),
             nav.find("impl Default for NavigationPosition"), nav.find("struct NavigationState"), nav.find("fn convert_last_char_to_number")]
    imp = nav.find("impl NavigationState")
    methods = [imp.find("fn new"), imp.find("fn reset"), imp.find("fn push"), imp.find("fn pop"), imp.find("fn top")]
    rst = imp.find_all("fn reset_start_time")
    cmd_fn = nav.find("fn do_navigate_command_string")
    apply_fn = cmd_fn.find("fn apply_navigation_rules")
    pop_stack = cmd_fn.find("fn pop_stack")
    # the statements of apply_navigation_rules between the rule results being read and the landing node being spoken: they push the new
    # position and set place markers (anchored on the let statements around them, so a rewritten condition is still followed)
    s_a = nav.find_stmt("let use_read_rules =", within=apply_fn)
    s_b = nav.find_stmt("let nav_mathml = get_node_by_id", within=apply_fn)
    push_block = slicer.Span(nav, s_a.end, s_b.start, "apply_navigation_rules::push_and_placemarker_statements")
    if "nav_state . push (" not in " ".join(t.text for t in slicer.lex(push_block.text) if t.kind != "comment") or "place_markers" not in push_block.text:
        raise slicer.SliceError("the push / set-placemarker statements are no longer between `let use_read_rules` and `let nav_mathml`")
    move_last = nav.find_expr('if nav_command == "MoveLastLocation"', within=cmd_fn)
    set_mathml = itf.find("fn set_mathml")
    new_expr = itf.find_expr("| nav_stack |", within=set_mathml)
    set_node_fn = nav.find("fn set_navigation_node_from_id")
    set_node = nav.find_expr("| nav_state |", within=set_node_fn)
    run.uses(*items, *methods, *rst, pop_stack, push_block, move_last, new_expr, set_node)
    # extra impl methods that the new-expression block may call (e.g. a method added by a repair)
    extra = []
    import re
    for m in re.findall(r"\.\s*borrow_mut\s*\(\s*\)\s*\.\s*(\w+)\s*\(", new_expr.text):
        if m not in ("reset", "push", "pop", "top", "new"):
            extra.append(imp.find("fn " + m))
    run.uses(*extra)
    new_block = new_expr.text[new_expr.text.index("{"):]
    set_block = set_node.text[set_node.text.index("{"):]
    body = prelude.STR_STUBS + prelude.MINIVEC + SHIMS + "\n".join(i.text for i in items) + "\nimpl NavigationState {\n" + \
        "\n".join(m.text for m in methods + rst + extra) + "\n}\n" + \
        HARNESS.replace("NEW_EXPR_BLOCK", new_block).replace("SET_NODE_BLOCK", set_block.replace("nav_state.borrow_mut()", "nav_state.borrow_mut()")) \
        .replace("POP_STACK_FN", pop_stack.text).replace("RULE_TAIL_SEGMENT", push_block.text) \
        .replace("MOVE_LAST_BLOCK", move_last.text)
    # free functions of navigate.rs that the sliced statements call and the harness does not define (e.g. a predicate factored out of a condition)
    helpers = slicer.called_helpers(nav, push_block.text + pop_stack.text + move_last.text, body)
    run.uses(*helpers)
    body += "\n" + "\n".join(h.text for h in helpers)
    body = body.replace("#[derive(Debug, Clone)]\npub struct NavigationState", "#[derive(Clone)]\npub struct NavigationState")
    crate = kani_run.Crate(crate_name, body)
    run.bound("K-C11-a", "pre-state: stacks of length 0..2 (equal lengths: the representation invariant asserted by pop()), ids from {a, b, ILLEGAL}, one arbitrary place marker and where_am_i; "
              "commands from {MoveNext, ZoomIn, MoveLastLocation, ReadNext, DescribeCurrent, WhereAmI, SetPlacemarker0..9}; rule results arbitrary; each statement group is checked as one inductive step (push/set-marker statements; pop_stack with count <= 2 = LOOP_LIMIT-1; MoveLastLocation pop)")
    run.assume("Instant::now stubbed (zeroed Instant); str::starts_with(&str) stubbed by a byte loop; context_get_variable replaced by a shim returning arbitrary rule results",
               "std Vec replaced under Kani by a fixed-capacity (4) array vector with the same push/pop/len/clear/index behaviour (prelude.MINIVEC); native replay uses the real Vec",
               "rule-engine contract assumed for pop_stack: a retry iteration (loop_count >= 1) that ends with speech has at least one entry above the bottom 'None' entry",
               "the retry loop of do_navigate_command_string is not unrolled: its statements are checked one inductive step each, from arbitrary states satisfying the invariant (equal lengths, bottom command 'None')")
    lem = [
        dict(id="K-C11-a.new_expression_forgets_everything", harness="new_expression_forgets_everything", covers=["two stack entries reachable"],
             role=lambda v, o: "place-marker-survives" if "place marker" in o else ("where-am-i-survives" if "where_am_i" in o else "stack-survives"),
             api=lambda v, o: api_marker_survives() if "place marker" in o else (True, "no recipe"),
             exclusions={"place-marker-survives": "PLACE_MARKER"},
             claim="after the state-changing statement of set_mathml: stacks empty, where_am_i default, all 10 place markers default"),
        dict(id="K-C11-a.set_navigation_node", harness="set_navigation_node_rests_on_id", covers=["two stack entries reachable"], role=lambda v, o: "any",
             claim="after set_navigation_node(id, off): stack == [(id, off, None)] and every place marker is as before"),
        dict(id="K-C11-a.one_rule_application", harness="one_rule_application_keeps_invariants", covers=["a move that pushes reachable", "read command reachable"],
             role=lambda v, o: "sync" if "out of sync" in o else ("read-moves" if "moved the position" in o else ("illegal-id" if "illegal node id" in o else "other")),
             claim="one rule application from any state: stacks same length, at most one push, read-type commands keep top(), ILLEGAL id never on top, bottom entry kept"),
        dict(id="K-C11-a.pop_stack", harness="pop_stack_keeps_final_position", covers=["two intermediate positions dropped", "nothing dropped below a read command"],
             role=lambda v, o: "undo-skips-a-position" if "removed more positions" in o or "dropped or reordered" in o else "any", api=lambda v, o: api_undo_after_retry(),
             claim="pop_stack(count<=2) on stacks of length 3..4: no unwrap panic, final position stays on top, stacks in sync, bottom entry kept, at most `count` entries removed, older entries untouched"),
        dict(id="K-C11-a.move_last_location", harness="move_last_location_restores_previous", covers=["two entries reachable"], role=lambda v, o: "any",
             claim="push(move) followed by the MoveLastLocation statement restores the previous top"),
        dict(id="K-C11-a.set_placemarker_index", harness="set_placemarker_stores_at_its_index", covers=["marker 9 reachable"], role=lambda v, o: "any",
             claim="SetPlacemarkerN writes exactly place_markers[N]; N < 10"),
    ]
    if only_kernel:
        return crate, {l["harness"]: l for l in lem}
    if run.tier == "quick":   # the slowest inductive step (SetPlacemarkerN, 400 s) runs in the thorough tier only; all others run concurrently
        lem = [l for l in lem if l["harness"] not in ("set_placemarker_stores_at_its_index",)]
    run.kani(crate, lem, timeout=900 if run.tier == "quick" else 1800)
