"""C19 — Illegal intent values are ignored or reported as configured (DESIGN.md §3 C19).
Engine K on the intent lexer (infer_intent.rs LexState / Token, sliced verbatim): every attribute value within the bound is
tokenised without a panic, with progress, and each token has the shape the grammar in the file header gives it.
Engine Z on the four token regexes."""
import random

import kani_run
import prelude
import rxsmt
import slicer
import tables
from framework import mcprobe
from smt_run import smt_str

ALPHABET_FULL = ["a", "_", "-", "1", ".", ":", "$", "(", ",", ")", " ", "\u00a0", "\u2003", "é", "\U0001d44e"]
ALPHABET_QUICK = ["a", "_", "-", "1", ".", ":", "$", "(", ",", ")", " ", "\u00a0", "é"]      # <= 2 bytes per char: halves the unwinding
ALPHABET = ALPHABET_QUICK

SHIM = r'''
use std::fmt;
pub type Result<T> = core::result::Result<T, ()>;
macro_rules! bail { ($($t:tt)*) => { return Err(()) }; }
'''

HARNESS = r'''
const ALPHA: [char; NALPHA] = [ALPHA_CHARS];
fn build(buf: &mut [u8; MAXB * NTOK]) -> usize {
    let n = sym::below(NTOK + 1);
    let mut len = 0;
    let mut i = 0;
    while i < NTOK {
        if i < n {
            let c = ALPHA[sym::below(NALPHA)];
            let mut tmp = [0u8; 4];
            let e = c.encode_utf8(&mut tmp).as_bytes();
            let mut j = 0;
            while j < e.len() { buf[len] = e[j]; len += 1; j += 1; }
        }
        i += 1;
    }
    len
}
fn is_prefix_of(tok: &str, prev: &str) -> bool { tok.as_ptr() == prev.as_ptr() && tok.len() <= prev.len() }

// K-C19-a / K-C08-c: ONE lexer step from any trimmed remaining string (LexState::init = trim + this step; every later state is again
// a trimmed remaining string, so one inductive step covers token sequences of any length): total, makes progress, right token shape
HARNESS(intent_lexer_step, UNW, [str::trim => stubs::trim, str::trim_start => stubs::trim_start]) {
    let mut buf = [0u8; MAXB * NTOK];
    let len = build(&mut buf);
    let input = unsafe { core::str::from_utf8_unchecked(&buf[..len]) };
    let prev: &str = stubs_or_std_trim(input);
    let mut st = LexState { token: Token::None, remaining_str: prev };
    if st.get_next().is_err() { cover!(prev.len() > 1, "lexical error reachable"); return; }
    let t = st.token.as_str();
    match &st.token {
        Token::None => { assert!(prev.is_empty() && st.remaining_str.is_empty(), "Token::None although input remains"); cover!(true, "end of input reachable"); return; }
        Token::Terminal(s) => { assert!(s.len() == 1 && (s.as_bytes()[0] == b'(' || s.as_bytes()[0] == b',' || s.as_bytes()[0] == b')'), "terminal is not one of ( , )"); }
        Token::Property(s) => { assert!(s.len() >= 2 && s.as_bytes()[0] == b':', "property token does not start with ':' + name"); cover!(true, "property reachable"); }
        Token::ArgRef(s) => { assert!(s.len() >= 2 && s.as_bytes()[0] == b'$', "argument reference does not start with '$' + name"); cover!(true, "argument reference reachable"); }
        Token::ConceptOrLiteral(s) => { let b = s.as_bytes()[0]; assert!(!s.is_empty() && !(b >= b'0' && b <= b'9') && b != b'.' && b != b'-' && b != b':' && b != b'$', "concept name starts with a digit, '.', '-', ':' or '$'"); }
        Token::Number(s) => { let b = s.as_bytes()[0]; assert!((b >= b'0' && b <= b'9') || (b == b'-' && s.len() >= 2), "number token does not start with a digit or '-digit'"); cover!(s.len() >= 2, "multi-character number reachable"); }
    }
    assert!(!t.is_empty() && is_prefix_of(t, prev), "token is not a non-empty prefix of the remaining input");
    assert!(st.remaining_str.len() + t.len() <= prev.len(), "lexer did not make progress");
    // the new remaining string is again trimmed and is a suffix of the old one (the invariant of the induction)
    let r = st.remaining_str;
    assert!(r.len() == 0 || (r.as_ptr() as usize + r.len() == prev.as_ptr() as usize + prev.len()), "remaining input is not a suffix of the previous one");
    assert!(stubs_or_std_trim(r).len() == r.len(), "remaining input is not trimmed");
}
#[cfg(kani)] fn stubs_or_std_trim(s: &str) -> &str { stubs::trim(s) }
#[cfg(not(kani))] fn stubs_or_std_trim(s: &str) -> &str { s.trim() }
'''


def lexer_crate(run, name, ntok, full_alphabet=False):
    global ALPHABET
    ALPHABET = ALPHABET_FULL if full_alphabet else ALPHABET_QUICK
    maxb = max(len(c.encode("utf-8")) for c in ALPHABET)
    src = slicer.Source.get("src/infer_intent.rs")
    ls = src.find("macro lazy_static")
    pats = []
    for n in ("CONCEPT_OR_LITERAL", "PROPERTY", "ARG_REF", "NUMBER"):
        sp = ls.find("static ref " + n)
        toks = [t for t in slicer.lex(sp.text) if t.kind == "str"]
        if len(toks) != 1:
            raise slicer.SliceError("pattern of %s not found" % n)
        pats.append((n, slicer.unquote(toks[0].text)))
        run.uses(sp)
    items = [src.find("static TERMINALS_AS_U8"), src.find("enum Token"), src.find("impl Token < '_ >") if False else None]
    items = [src.find("static TERMINALS_AS_U8"), src.find("enum Token"), src.find("struct LexState")]
    imp_tok = src.find("impl Token")
    imp_lex = src.find("impl LexState")
    run.uses(*items, imp_tok, imp_lex)
    body = prelude.STR_STUBS + SHIM + rxsmt.mock_statics(pats) + "\n".join(i.text for i in items) + "\n" + imp_tok.text + "\n" + imp_lex.text + \
        HARNESS.replace("NALPHA", str(len(ALPHABET))).replace("ALPHA_CHARS", ", ".join(slicer.rust_char(c) for c in ALPHABET)) \
        .replace("MAXB", str(maxb)).replace("NTOK", str(ntok)).replace("UNW", str(maxb * ntok + 5))
    body = body.replace("#[derive(Debug, PartialEq, Eq, Clone)]\nenum Token", "#[derive(PartialEq, Eq, Clone)]\nenum Token")
    crate = kani_run.Crate(name, body, native_deps={"regex": '"1.10"', "lazy_static": '"1.4"'})
    return crate, pats


def lexer_lemma(run, crate, ntok):
    run.bound("K-C19-a", "every attribute value of <= %d characters over {%s} (<= %d bytes, valid UTF-8 by construction)" % (
        ntok, " ".join("U+%04X" % ord(c) for c in ALPHABET), max(len(c.encode("utf-8")) for c in ALPHABET) * ntok))
    run.assume("regex mock under Kani: each of the four token regexes is a DFA generated from its pattern text on this run (validated against the real regex crate on random strings in the thorough tier); native replay uses the real regex crate",
               "str::trim / trim_start stubbed by byte loops implementing the full Unicode White_Space set; bail! formatting replaced by Err(())")

    def api(vals, out):
        # decode the attribute value from the recorded choices: first value = count, then one index per char
        n = vals[0][0]
        s = "".join(ALPHABET[v[0]] for v in vals[1:1 + n])
        expr = "<math><mrow intent=\"%s\"><mi>x</mi><mo>+</mo><mi>y</mi></mrow></math>" % s.replace("&", "&amp;").replace('"', "&quot;").replace("<", "&lt;")
        res = mcprobe([("mathml", expr), "speech", ("pref", "IntentErrorRecovery Error"), "speech"])
        bad = [r for r in res if r[0] not in ("OK", "ERR")]
        return bool(bad), {"intent": s, "results": res}
    return dict(id="K-C19-a.intent_lexer_step", harness="intent_lexer_step", api=api, role=lambda v, o: "lexer",
                covers=["lexical error reachable", "end of input reachable", "argument reference reachable", "property reachable",
                        "multi-character number reachable"],
                claim="LexState::init/get_next/set_token never panic, always consume a non-empty prefix, classify tokens as the grammar says, and end with an empty remainder")


def build(run):
    run.outside += ["build_intent / build_arguments and the recovery (remove attribute, re-match, restore): DOM + rule interpreter",
                    "'speech as if the attribute were ignored' (rule output)"]
    crate_c, lemmas_c = arg_lemma(run)
    run.kani(crate_c, lemmas_c, timeout=600)
    crate_d, lemma_d = fun_lemma(run)
    run.kani(crate_d, [lemma_d], timeout=600)
    crate_e, lemma_e = lift_lemma(run)
    run.kani(crate_e, [lemma_e], timeout=600)
    ntok = 3 if run.tier == "quick" else 4
    crate, pats = lexer_crate(run, "c19lex", ntok)
    lem = lexer_lemma(run, crate, ntok)
    if run.tier == "thorough":
        # 4 chars over the 13-char alphabet (<= 2 bytes per char) and, separately, 2 chars over the full 15-char alphabet incl. 3- and 4-byte chars
        # (4 chars over the full alphabet exhausts 12 GB)
        crate2, _ = lexer_crate(run, "c19lexfull", 2, full_alphabet=True)
        lem2 = dict(lexer_lemma(run, crate2, 2), id="K-C19-a.intent_lexer_step.full_alphabet")
        run.kani(crate, [lem], timeout=3000)
        run.kani(crate2, [lem2], timeout=3000)
    else:
        # ~430 s of solver time for one harness on the reference machine (600+ s on a slower one): left to the thorough tier; the quick tier
        # decides the token regexes themselves (Z-C19-b) and the argument / application kernels (K-C19-c/d/e)
        run.kani(crate, [dict(lem, deep=True)], timeout=600)

    # ---- Z-C19-b: the token regexes vs the grammar in the header comment ---------------------------------------------------
    P = dict(pats)
    first = {n: rxsmt.first_chars(rxsmt.split_anchors(rxsmt.parse(p)[0])[2])[0] for n, p in P.items()}
    run.bound("Z-C19-b", "the four token regexes, all code points")
    # (1) a concept name cannot start with a digit, '.', '-' (XML NCName rule quoted in the source comment), nor with ':' '$' '(' ',' ')'
    bad = [c for c in "0123456789.-:$(,)" if rxsmt.in_ranges(first["CONCEPT_OR_LITERAL"], ord(c))]
    D = "(declare-const s String)\n"
    lang = {n: rxsmt.search_lang(p) for n, p in P.items()}
    forbidden = "(re.++ (re.union %s) re.all)" % " ".join("(str.to_re %s)" % smt_str(c) for c in "0123456789.-:$(,)")
    run.smt("Z-C19-b.concept_start", D + "(assert (str.in_re s %s))\n(assert (str.in_re s %s))" % (lang["CONCEPT_OR_LITERAL"], forbidden), get=("s",),
            witness=lambda m: ("concept-start", "CONCEPT_OR_LITERAL matches at the start of %r" % m["s"], {"s": m["s"], "real": rxsmt.captures_real(P["CONCEPT_OR_LITERAL"], m["s"])})
            if rxsmt.captures_real(P["CONCEPT_OR_LITERAL"], m["s"]) else None,
            vacuity=D + "(assert (str.in_re s %s))" % lang["CONCEPT_OR_LITERAL"],
            claim="no concept/literal token starts with a digit, '.', '-', ':', '$' or a terminal")
    # (2) the token classes are pairwise disjoint at the first character where the lexer relies on it (order: property, argref, concept, number)
    for a, b in (("CONCEPT_OR_LITERAL", "NUMBER"), ("PROPERTY", "ARG_REF"), ("PROPERTY", "CONCEPT_OR_LITERAL"), ("ARG_REF", "CONCEPT_OR_LITERAL"), ("PROPERTY", "NUMBER"), ("ARG_REF", "NUMBER")):
        run.smt("Z-C19-b.disjoint.%s.%s" % (a.lower(), b.lower()), D + "(assert (str.in_re s %s))\n(assert (str.in_re s %s))" % (lang[a], lang[b]), get=("s",),
                witness=lambda m, a=a, b=b: ("overlap:%s/%s" % (a, b), "%r starts both a %s and a %s token" % (m["s"], a, b), {"s": m["s"]})
                if rxsmt.captures_real(P[a], m["s"]) and rxsmt.captures_real(P[b], m["s"]) else None,
                claim="no string starts both a %s and a %s token (so the order of the lexer's tests does not matter)" % (a, b))
    # (0) every token regex matches at the start of the remaining input only (the lexer advances by the token's length from offset 0)
    for n in P:
        core = rxsmt.core_lang(P[n])

        def w_anchor(m, n=n):
            sw = m["s"]
            r = rxsmt.rxcheck([("M", [P[n], sw])])[0]
            if r is None or r == "null" or r.split()[0].split(",")[0] == "0":
                return None
            expr_i = "<math><mrow intent=\"%s\"><mi>x</mi><mo>+</mo><mi>y</mi></mrow></math>" % sw.replace("&", "&amp;").replace('"', "&quot;").replace("<", "&lt;")
            res = mcprobe([("mathml", expr_i), "speech", ("mathml", "<math><mrow><mi>x</mi><mo>+</mo><mi>y</mi></mrow></math>"), "speech"])
            return ("token-regex-not-anchored:" + n, "%s matches %r at offset %s (not at the start); intent=%r gives %r, without the attribute %r" % (n, sw, r.split()[0], sw, res[1], res[3]),
                    {"s": sw, "real_match": r, "api": res})
        run.smt("Z-C19-b.anchored.%s" % n.lower(), D + "(assert (str.in_re s %s))\n(assert (not (str.in_re s (re.++ %s re.all))))\n(assert (str.in_re s ((_ re.loop 1 6) (re.union (re.range \" \" \"~\") (str.to_re \"\\u{b1}\")))))" % (lang[n], core),
                get=("s",), witness=w_anchor, claim="%s can only match at the start of the string it is given" % n)
    # (3) every regex consumes at least one char (progress) and never matches white space or a terminal inside a name
    for n in P:
        ws = "(re.++ re.all (re.union %s) re.all)" % " ".join("(str.to_re %s)" % smt_str(c) for c in " \t\n\r(,)")
        core = rxsmt.core_lang(P[n])
        run.smt("Z-C19-b.token_text.%s" % n.lower(), D + "(assert (str.in_re s %s))\n(assert (or (= s \"\") (str.in_re s %s)))" % (core, ws), get=("s",),
                witness=lambda m, n=n: ("token-text:" + n, "%s can match %r (empty, or containing white space / a terminal)" % (n, m["s"]), {"s": m["s"]})
                if (rxsmt.captures_real(P[n], m["s"]) or [None])[0] == m["s"] else None,
                vacuity=D + "(assert (str.in_re s %s))" % core,
                claim="%s never matches the empty string and its match contains no white space, '(' ',' or ')'" % n)
    # translator validation of the DFA mock against the real crate (thorough tier)
    if run.tier == "thorough":
        rnd = random.Random(run.seed)
        for n, p in P.items():
            texts = ["".join(rnd.choice(ALPHABET + ["Z", "9", "é"]) for _ in range(rnd.randint(0, 7))) for _ in range(4000)]
            real = rxsmt.rxcheck([("M", [p, t]) for t in texts])
            bad = [(t, r) for t, r in zip(texts, real) if (None if r == "null" else int(r.split()[0].split(",")[1])) != rxsmt.dfa_match_py(p, t)]
            run.queries += 1
            if bad:
                run.inconclusive_("TV.dfa_mock." + n.lower(), "generated DFA disagrees with the real regex crate on %r" % (bad[:3],))
            else:
                run.holds("TV.dfa_mock." + n.lower(), note="(4000 random strings: generated DFA == real regex crate)")



# ======================================================================================================================
# K-C19-d: build_function -- chained applications head(args1)(args2)... fold to the left: the head of the n-th application is the
#          result of the (n-1)-th one, so no argument list is dropped
FUN_SHIM = r"""
use core::marker::PhantomData;
pub type Result<T> = core::result::Result<T, Error>;
#[derive(Debug)] pub struct Error;
macro_rules! bail { ($($t:tt)*) => { return Err(Error) }; }
#[derive(Clone, Copy, PartialEq, Debug)] pub struct Element<'a> { id: u8, p: PhantomData<&'a ()> }
fn el<'a>(id: u8) -> Element<'a> { Element { id, p: PhantomData } }
pub struct Document<'a>(PhantomData<&'a ()>);
pub struct SpeechRulesWithContext<'c, 's, 'm> { p: PhantomData<(&'c (), &'s (), &'m ())> }
impl<'c, 's, 'm> SpeechRulesWithContext<'c, 's, 'm> { fn get_document(&self) -> Document<'m> { Document(PhantomData) } }
fn name(_e: &Element) -> &'static str { "f" }
pub const NT: usize = 12;
/// the lexer reduced to a token stream over  ( ) , x   (x = any intent that is not an application; one lexer step is K-C19-a's subject)
pub struct LexState<'b> { toks: [u8; NT], pos: usize, p: PhantomData<&'b ()> }
impl<'b> LexState<'b> {
    fn is_terminal(&self, s: &str) -> bool { self.pos < NT && self.toks[self.pos] == s.as_bytes()[0] }
    fn get_next(&mut self) -> Result<()> { if self.pos < NT { self.pos += 1; Ok(()) } else { Err(Error) } }
}
#[derive(Clone, Copy)] pub struct Args { list: u8 }
static mut NLISTS: u8 = 0;
static mut NCALLS: usize = 0;
static mut HEADS: [u8; 6] = [0; 6];
static mut LISTS: [u8; 6] = [0; 6];
/// arguments := intent ( ',' intent )*   -- start state: after '(' ; end state: on ')' (or on whatever else follows)
fn build_arguments<'b, 'c, 's, 'm>(_r: &mut SpeechRulesWithContext<'c, 's, 'm>, lex_state: &mut LexState<'b>, _m: Element<'c>) -> Result<Args> {
    if !lex_state.is_terminal("x") { return Err(Error); }
    lex_state.get_next()?;
    let mut k = 0;
    while k < NT && lex_state.is_terminal(",") { lex_state.get_next()?; if !lex_state.is_terminal("x") { return Err(Error); } lex_state.get_next()?; k += 1; }
    unsafe { NLISTS += 1; Ok(Args { list: NLISTS }) }
}
/// recorder: which head and which argument list each application gets; the result is a fresh element
fn lift_function_name<'m>(_doc: Document<'m>, function_name: Element<'m>, children: Args) -> Element<'m> {
    unsafe { assert!(NCALLS < 6); HEADS[NCALLS] = function_name.id; LISTS[NCALLS] = children.list; NCALLS += 1; el(100 + NCALLS as u8) }
}
"""

FUN_HARNESS = r"""
HARNESS(chained_applications_fold_left, 14) {
    let mut toks = [0u8; NT];
    let mut i = 0;
    while i < NT { toks[i] = match sym::below(5) { 0 => b'(', 1 => b')', 2 => b',', 3 => b'x', _ => 0 }; i += 1; }
    sym::assume(toks[0] == b'(');                 // documented start state: at '('
    let mut lex = LexState { toks, pos: 0, p: PhantomData };
    let mut r = SpeechRulesWithContext { p: PhantomData };
    let res = build_function(el(1), &mut r, &mut lex, el(0));
    let n = unsafe { NCALLS };
    cover!(res.is_ok() && n == 3, "three chained applications reachable");
    cover!(res.is_err() && n == 1, "error after one complete application reachable");
    if let Ok(e) = res {
        assert!(n >= 1, "an application without arguments was accepted");
        assert!(unsafe { HEADS[0] } == 1, "the first application is not applied to the given head");
        let mut k = 1;
        while k < n { unsafe { assert!(HEADS[k] == 100 + k as u8, "a chained application is not applied to the result of the application before it: an argument list is lost"); } k += 1; }
        let mut k = 0;
        while k < n { unsafe { assert!(LISTS[k] == k as u8 + 1, "argument lists are applied out of order"); } k += 1; }
        assert!(e.id == 100 + n as u8, "the result is not the last application");
        assert!(!lex.is_terminal("("), "build_function stops in front of a further application");
    }
}
"""


def api_chain(vals=None, out=None):
    res = mcprobe([("mathml", "<math><mrow intent='f($x)($y)($z)'><mi arg='x'>x</mi><mo>+</mo><mi arg='y'>y</mi><mo>-</mo><mi arg='z'>z</mi></mrow></math>"), "speech"])
    sp = res[-1][1] if res[-1][0] == "OK" else ""
    bad = res[-1][0] != "OK" or not all(w in sp.replace(",", " ").split() for w in ("x", "y", "z"))
    return bad, {"script": "intent='f($x)($y)($z)': speech must mention each referenced argument x, y, z", "results": res}


def fun_lemma(run):
    src = slicer.Source.get("src/infer_intent.rs")
    f = src.find("fn build_function")
    run.uses(f)
    crate = kani_run.Crate("c19fun", FUN_SHIM + f.text + FUN_HARNESS)
    run.bound("K-C19-d", "build_function verbatim on every token stream of 12 tokens over { ( ) , x end } that starts with '(' (up to 4 chained applications)")
    run.assume("K-C19-d: the lexer is reduced to a token stream (one lexer step is K-C19-a's subject); build_arguments is the grammar's `intent (',' intent)*` over that stream; lift_function_name is a recorder returning a fresh element; error text (bail!) not built")
    return crate, dict(id="K-C19-d.chained_applications_fold_left", harness="chained_applications_fold_left", api=lambda v, o: api_chain(),
                       role=lambda v, o: "argument-list-lost" if "argument list is lost" in o else "application-order",
                       covers=["three chained applications reachable", "error after one complete application reachable"],
                       claim="head(a1)(a2)..(an): application k gets the result of application k-1 as its head and the k-th argument list; the result is the last application")

# ======================================================================================================================
# K-C19-e: lift_function_name applied twice (head(a)(b)), for heads that are ordinary words and heads that spell a MathML leaf name
LIFT_SHIM = r"""
use core::marker::PhantomData;
const IMPLICIT_FUNCTION_NAME: &str = "apply-function";
const INTENT_PROPERTY: &str = "data-intent-property";
const STR: [&str; 6] = ["", "mi", "mn", "f", "_", "apply-function"];
fn sidx(s: &str) -> u8 { match s { "" => 0, "mi" => 1, "mn" => 2, "f" => 3, "_" => 4, "apply-function" => 5, _ => { assert!(false, "string outside the model"); 0 } } }
pub const NE: usize = 6;
static mut NAME: [u8; NE] = [0; NE];
static mut TEXT: [u8; NE] = [0; NE];
static mut LIST: [u8; NE] = [0; NE];        // id of the argument list the element holds as children (0 = none)
static mut HEAD: [u8; NE] = [255; NE];      // apply-function: the element it applies
static mut SILENT: [bool; NE] = [false; NE];
static mut NEL: usize = 0;
#[derive(Clone, Copy, PartialEq, Debug)] pub struct Element<'a> { id: u8, p: PhantomData<&'a ()> }
#[derive(Clone, Copy)] pub struct Document<'a>(PhantomData<&'a ()>);
#[derive(Clone, Copy)] pub struct Args { list: u8 }
/// children() of the model: `n` element children (the applied element / the argument list), or one text child for a leaf that holds text
pub struct Kids { n: usize, text: bool }
#[derive(Clone, Copy)] pub struct Kid { is_element: bool }
impl Kid { pub fn element(&self) -> Option<()> { if self.is_element { Some(()) } else { None } } pub fn text(&self) -> Option<()> { if self.is_element { None } else { Some(()) } } }
pub struct KidIter { left: usize, text: bool }
impl Iterator for KidIter { type Item = Kid; fn next(&mut self) -> Option<Kid> { if self.left > 0 { self.left -= 1; Some(Kid { is_element: true }) } else if self.text { self.text = false; Some(Kid { is_element: false }) } else { None } } }
impl Kids { pub fn is_empty(&self) -> bool { self.n == 0 && !self.text } pub fn len(&self) -> usize { self.n + self.text as usize } pub fn iter(&self) -> KidIter { KidIter { left: self.n, text: self.text } } }
fn el<'a>(id: u8) -> Element<'a> { Element { id, p: PhantomData } }
fn name<'a>(e: &Element<'a>) -> &'static str { STR[unsafe { NAME[e.id as usize] } as usize] }
/// xpath_functions::is_leaf: by element NAME (mi, mn are the leaf names in play here)
fn is_leaf(e: Element) -> bool { let n = unsafe { NAME[e.id as usize] }; n == 1 || n == 2 }
/// canonicalize::as_text: panics unless the element is a leaf whose only child is text
fn as_text<'a>(e: Element<'a>) -> &'static str {
    assert!(is_leaf(e), "as_text of a non-leaf");
    assert!(unsafe { LIST[e.id as usize] == 0 && HEAD[e.id as usize] == 255 }, "as_text: internal error -- found non-text child of leaf element");
    STR[unsafe { TEXT[e.id as usize] } as usize]
}
fn set_mathml_name(e: Element, nm: &str) { unsafe { NAME[e.id as usize] = sidx(nm); } }
fn create_mathml_element<'a>(_d: &Document<'a>, nm: &str) -> Element<'a> { unsafe { let id = NEL; assert!(id < NE); NEL += 1; NAME[id] = sidx(nm); TEXT[id] = 0; LIST[id] = 0; HEAD[id] = 255; el(id as u8) } }
impl<'a> Element<'a> {
    pub fn set_text(&self, t: &str) { unsafe { TEXT[self.id as usize] = sidx(t); } }
    pub fn replace_children(&self, a: Args) { unsafe { LIST[self.id as usize] = a.list; HEAD[self.id as usize] = 255; } }
    pub fn children(&self) -> Kids { let n = unsafe { (LIST[self.id as usize] != 0) as usize + (HEAD[self.id as usize] != 255) as usize }; Kids { n, text: n == 0 && unsafe { TEXT[self.id as usize] != 0 } } }
    pub fn append_child(&self, c: Element<'a>) { unsafe { HEAD[self.id as usize] = c.id; } }
    pub fn append_children(&self, a: Args) { unsafe { LIST[self.id as usize] = a.list; } }
    pub fn attribute_value(&self, _n: &str) -> Option<&'static str> { None }
    pub fn set_attribute_value(&self, _n: &str, _v: &str) { unsafe { SILENT[self.id as usize] = true; } }
}
type Vec<T> = ArgsOf<T>;
pub struct ArgsOf<T> { a: Args, p: PhantomData<T> }
impl<'a> From<ArgsOf<Element<'a>>> for Args { fn from(v: ArgsOf<Element<'a>>) -> Args { v.a } }
"""

LIFT_HARNESS = r"""
impl<'a> Element<'a> {
    fn replace_children_v(&self, v: ArgsOf<Element<'a>>) { self.replace_children(v.a) }
}
fn twice(word: &'static str, number: bool) -> u8 {
    unsafe { NEL = 0; }
    let doc = Document(PhantomData);
    // the head as build_intent creates it: an mi (mn for a number token) holding the word
    let head = create_mathml_element(&doc, if number { "mn" } else { "mi" });
    head.set_text(word);
    let r1 = lift(doc, head, Args { list: 1 });
    let r2 = lift(doc, r1, Args { list: 2 });
    // both argument lists are still in the result:  r2 = apply-function(r1, list 2), r1 holds list 1   (or r2 == r1 holding both -- never the case here)
    let ok = unsafe { HEAD[r2.id as usize] == r1.id && LIST[r2.id as usize] == 2 && LIST[r1.id as usize] == 1 };
    if ok { 0 } else { 1 }
}
HARNESS(head_applied_twice_is_total, 16) {
    let k = sym::below(4);
    let code = match k { 0 => twice("f", false), 1 => twice("mi", false), 2 => twice("mn", false), _ => twice("_", false) };
    cover!(k == 1, "head that spells a leaf element name reachable");
    cover!(k == 3, "head made of underscores reachable");
    assert!(code == 0, "head(a)(b): an argument list is lost");
}
"""


def api_lift(vals=None, out=None):
    res = mcprobe([("mathml", "<math><mrow intent='mi($x)($y)'><mi arg='x'>x</mi><mo>+</mo><mi arg='y'>y</mi></mrow></math>"), "speech", ("mathml", "<math><mi>z</mi></math>"), "speech"])
    return any(r[0] in ("PANIC", "ABORT") for r in res), {"script": "intent='mi($x)($y)' (a head that spells a MathML leaf name, applied twice); get_spoken_text must give speech or an error, not panic", "results": res[1:]}


def lift_lemma(run):
    src = slicer.Source.get("src/infer_intent.rs")
    f = src.find("fn lift_function_name")
    run.uses(f)
    text = f.text.replace("fn lift_function_name", "fn lift_function_name_real", 1)
    body = LIFT_SHIM + f.text + "\nfn lift<'m>(doc: Document<'m>, function_name: Element<'m>, a: Args) -> Element<'m> { lift_function_name(doc, function_name, ArgsOf { a, p: PhantomData }) }\n" + LIFT_HARNESS
    body = body.replace("pub fn replace_children(&self, a: Args)", "pub fn replace_children<A: Into<Args>>(&self, a: A)").replace("LIST[self.id as usize] = a.list; HEAD[self.id as usize] = 255; } }", "let a: Args = a.into(); LIST[self.id as usize] = a.list; HEAD[self.id as usize] = 255; } }", 1)
    body = body.replace("pub fn append_children(&self, a: Args) { unsafe { LIST[self.id as usize] = a.list; } }", "pub fn append_children<A: Into<Args>>(&self, a: A) { let a: Args = a.into(); unsafe { LIST[self.id as usize] = a.list; } }")
    body = body.replace("impl<'a> Element<'a> {\n    fn replace_children_v(&self, v: ArgsOf<Element<'a>>) { self.replace_children(v.a) }\n}\n", "").replace("    self.replace_children(v.a)", "")
    crate = kani_run.Crate("c19lift", body)
    run.bound("K-C19-e", "lift_function_name verbatim, applied twice as build_function does for head(a)(b); head word in {f, mi, mn, _} (4 solver-selected cases on literals)")
    run.assume("K-C19-e: sxd_document elements reduced to (name, text, argument-list id, applied element); is_leaf decides by element name and as_text panics on an element that has element children, as the real functions do")
    return crate, dict(id="K-C19-e.head_applied_twice_total", harness="head_applied_twice_is_total", api=lambda v, o: api_lift(),
                       role=lambda v, o: "leaf-named-head-panics" if "non-text child" in o else "argument-list-lost-in-lift",
                       covers=["head that spells a leaf element name reachable", "head made of underscores reachable"],
                       claim="head(a)(b) never panics and keeps both argument lists, also when the head spells mi / mn")


# ======================================================================================================================
# K-C19-c: find_arg -- a reference $name resolves to the first descendant with arg=name that is VISIBLE from the element
#          carrying the intent: the search does not look inside elements that have another arg or their own intent
ARG_SHIM = r"""
pub type Result<T> = core::result::Result<T, Error>;
#[derive(Debug)] pub struct Error;
const INTENT_ATTR: &str = "intent";
pub const NN: usize = 6;
/// fixed tree:   0 ( 1 ( 3  4 )  2 ( 5 ) )      arg / intent of every node symbolic; names are "a" / "b"
static mut ARG: [u8; NN] = [0; NN];            // 0 = no arg attribute, 1 = arg="a", 2 = arg="b"
static mut HAS_INTENT: [bool; NN] = [false; NN];
const KIDS: [&[u8]; NN] = [&[1, 2], &[3, 4], &[5], &[], &[], &[]];
#[derive(Clone, Copy, PartialEq, Debug)] pub struct Element<'a> { id: u8, p: core::marker::PhantomData<&'a ()> }
#[derive(Clone, Copy)] pub struct ChildOfElement<'a>(Element<'a>);
fn el<'a>(id: u8) -> Element<'a> { Element { id, p: core::marker::PhantomData } }
impl<'a> Element<'a> {
    fn attribute_value(&self, nm: &str) -> Option<&'static str> {
        if nm.len() == 3 { match unsafe { ARG[self.id as usize] } { 1 => Some("a"), 2 => Some("b"), _ => None } }
        else if unsafe { HAS_INTENT[self.id as usize] } { Some("f") } else { None }
    }
    fn children(&self) -> Kids<'a> { Kids { k: KIDS[self.id as usize], i: 0, p: core::marker::PhantomData } }
}
pub struct Kids<'a> { k: &'static [u8], i: usize, p: core::marker::PhantomData<&'a ()> }
impl<'a> Iterator for Kids<'a> { type Item = ChildOfElement<'a>; fn next(&mut self) -> Option<ChildOfElement<'a>> { if self.i < self.k.len() { self.i += 1; Some(ChildOfElement(el(self.k[self.i - 1]))) } else { None } } }
fn as_element<'a>(c: ChildOfElement<'a>) -> Element<'a> { c.0 }
fn is_leaf(e: Element) -> bool { KIDS[e.id as usize].is_empty() }
pub struct LexState;
impl LexState { fn init(_s: &str) -> Result<LexState> { Ok(LexState) } }
pub struct SpeechRulesWithContext<'c, 's, 'm> { p: core::marker::PhantomData<(&'c (), &'s (), &'m ())> }
impl<'c, 's, 'm> SpeechRulesWithContext<'c, 's, 'm> { fn match_pattern<T: From<Element<'m>>>(&mut self, e: Element<'c>) -> Result<T> { Ok(T::from(el(e.id))) } }
fn build_intent<'c, 's, 'm>(_r: &mut SpeechRulesWithContext<'c, 's, 'm>, _l: &mut LexState, e: Element<'c>) -> Result<Element<'m>> { Ok(el(e.id)) }
"""

ARG_HARNESS = r"""
/// reference semantics: is node `t` visible from the root (every node strictly between them has neither arg nor intent)?
fn visible(t: usize) -> bool {
    const PARENT: [usize; NN] = [0, 0, 0, 1, 1, 2];
    let mut p = PARENT[t];
    let mut k = 0;
    while p != 0 && k < 3 { if unsafe { ARG[p] != 0 || HAS_INTENT[p] } { return false; } p = PARENT[p]; k += 1; }
    true
}
HARNESS(find_arg_respects_reference_scopes_pPART, 4, [str::trim => stubs::trim]) {
    // case split (one harness per case, together they cover every assignment): arg / intent of node 1 are the literals of this case
    // (loops over the 6 nodes written out: the unwinding bound of the harness is then the depth / fan-out of the tree, not the node count)
    unsafe { ARG[0] = sym::below(3) as u8; HAS_INTENT[0] = sym::bool(); }
    unsafe { ARG[2] = sym::below(3) as u8; HAS_INTENT[2] = sym::bool(); }
    unsafe { ARG[3] = sym::below(3) as u8; HAS_INTENT[3] = sym::bool(); }
    unsafe { ARG[4] = sym::below(3) as u8; HAS_INTENT[4] = sym::bool(); }
    unsafe { ARG[5] = sym::below(3) as u8; HAS_INTENT[5] = sym::bool(); }
    unsafe { ARG[1] = PART_ARG; HAS_INTENT[1] = PART_INTENT; }
    unsafe { HAS_INTENT[0] = true; }                        // the element whose intent holds the reference $a
    let mut r = SpeechRulesWithContext { p: core::marker::PhantomData };
    let found = find_arg(&mut r, "a", el(0), true, false).unwrap();
    // expected: the first node in document order (1 3 4 2 5) with arg="a" that is visible from the root
    let mut want: Option<usize> = None;
    if want.is_none() && unsafe { ARG[1] } == 1 && visible(1) { want = Some(1); }
    if want.is_none() && unsafe { ARG[3] } == 1 && visible(3) { want = Some(3); }
    if want.is_none() && unsafe { ARG[4] } == 1 && visible(4) { want = Some(4); }
    if want.is_none() && unsafe { ARG[2] } == 1 && visible(2) { want = Some(2); }
    if want.is_none() && unsafe { ARG[5] } == 1 && visible(5) { want = Some(5); }
    PART_COVER
    match (found, want) {
        (None, None) => (),
        (Some(e), Some(t)) => assert!(e.id as usize == t, "the reference resolves to a different element than the first visible arg"),
        (Some(_), None) => assert!(false, "a reference resolves to an arg hidden inside another arg or intent (an illegal intent is honoured)"),
        (None, Some(_)) => assert!(false, "a visible arg is not found"),
    }
}
"""


def api_scope(vals=None, out=None):
    res = mcprobe([("pref", "IntentErrorRecovery Error"),
                   ("mathml", "<math><mrow intent='pair($a)'><mrow arg='q'><mi arg='a'>x</mi><mi>y</mi></mrow><mo>+</mo><mi>z</mi></mrow></math>"), "speech"])
    return res[-1][0] == "OK", {"script": "IntentErrorRecovery=Error; intent='pair($a)' whose only arg='a' is inside an element with arg='q'; get_spoken_text must report the error", "results": res[1:]}


def arg_lemma(run):
    src = slicer.Source.get("src/infer_intent.rs")
    f = src.find("fn find_arg")
    run.uses(f)
    # case split over node 1 (the parent of the two-levels-down nodes): 3 arg values x own intent or not; the 6 harnesses together cover the bound
    parts = []
    for arg in (0, 1, 2):
        for intent in (False, True):
            if arg == 0 and not intent:
                cov = ('want == Some(4)', "argument two levels down reachable")
            elif arg == 1:
                cov = ('want == Some(1) && unsafe { ARG[3] } == 1', "first arg in document order wins reachable")
            else:
                cov = ('want.is_none() && unsafe { ARG[3] } == 1', "argument hidden inside another arg / intent reachable")
            parts.append((len(parts), arg, intent, cov))
    harnesses = "\n".join(ARG_HARNESS[ARG_HARNESS.index("HARNESS("):].replace("PART_ARG", str(a)).replace("PART_INTENT", "true" if i else "false")
                          .replace("PART_COVER", 'cover!(%s, "%s");' % c).replace("pPART", "p%d" % k) for k, a, i, c in parts)
    crate = kani_run.Crate("c19arg", prelude.STR_STUBS + ARG_SHIM + f.text + ARG_HARNESS[:ARG_HARNESS.index("HARNESS(")] + harnesses)
    run.bound("K-C19-c", "find_arg verbatim on a 6-node tree 0(1(3 4) 2(5)); every node with no arg / arg=a / arg=b and with or without its own intent (3^6 x 2^5 assignments); reference $a from node 0; "
                         "discharged as 6 harnesses, one per (arg, intent) of node 1")
    run.assume("sxd_document elements reduced to (arg, has-intent, fixed child lists); match_pattern / build_intent return the node they are given; LexState::init succeeds")
    return crate, [dict(id="K-C19-c.find_arg_respects_reference_scopes[node1: arg=%s%s]" % (("none", "a", "b")[a], ", intent" if i else ""),
                        harness="find_arg_respects_reference_scopes_p%d" % k, api=lambda v, o: api_scope(),
                        role=lambda v, o: "hidden-arg-resolved" if "hidden inside" in o else ("wrong-arg" if "different element" in o else "visible-arg-missed"),
                        covers=[c[1]],
                        claim="find_arg returns exactly the first arg=name in document order that is not inside another arg or intent") for k, a, i, c in parts]
