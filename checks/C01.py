"""C01 — Canonicalization never loses or invents visible content (DESIGN.md §3 C01).
Engine K on the statement groups / leaf-text kernels of clean_mathml that decide whether content is dropped or rewritten."""
import kani_run
import prelude
import slicer
from framework import mcprobe

EMPTY_HARNESS = r'''
#[derive(Clone, Copy)] pub struct El { empty: bool }
pub struct CanonicalizeContext;
impl CanonicalizeContext { fn is_empty_element(e: El) -> bool { e.empty } }
fn as_element(e: El) -> El { e }
/// the statements of clean_mathml that decide whether a script element is "completely empty" (and is then dropped), verbatim
fn script_is_dropped(element_name: &str, children: &[El; 3]) -> bool {
    STMT
    IFBLOCK
    is_empty_script
}
// K-C01-e.1: a script element is dropped as "empty" only if ALL of its children are empty
HARNESS(empty_script_elimination_drops_nothing_visible, 10) {
    let children = [El { empty: sym::bool() }, El { empty: sym::bool() }, El { empty: sym::bool() }];
    let kind = sym::below(3);
    let dropped = match kind { 0 => script_is_dropped("msub", &children), 1 => script_is_dropped("msup", &children), _ => script_is_dropped("msubsup", &children) };
    let n = if kind == 2 { 3 } else { 2 };
    cover!(dropped && kind == 2, "dropped msubsup reachable");
    cover!(!dropped && children[1].empty, "kept element with one empty script reachable");
    if dropped {
        let mut i = 0;
        while i < n { assert!(children[i].empty, "a script element with visible content in one child is dropped as 'completely empty'"); i += 1; }
    }
}
'''


PRIME_HARNESS = r'''
macro_rules! eprint { ($($t:tt)*) => { }; }
const PRIMES: [char; 6] = ['\'', '′', '″', '‴', '⁗', 'x'];
fn weight(c: char) -> usize { match c { '\'' | '′' => 1, '″' => 2, '‴' => 3, '⁗' => 4, _ => 0 } }
// K-C01-a: merging primes keeps their total count (prime/dot/bar merging is a documented normalisation: nothing else may change)
fn check(text: &str) {
    let mut total = 0; let mut all_primes = true;
    for c in text.chars() { if weight(c) == 0 { all_primes = false; } total += weight(c); }
    let out = merge_prime_text(text);
    if all_primes {
        let mut w = 0;
        for c in out.chars() { assert!(weight(c) >= 1 && c != '\'', "merged text contains a non-prime"); w += weight(c); }
        assert!(w == total, "merging primes changed the number of primes");
    } else {
        assert!(out.as_bytes() == text.as_bytes(), "text with other characters was changed");
    }
    core::mem::forget(out);
}
HARNESS(merge_prime_text_keeps_the_count, 14) {
    // the solver picks the case; every path runs on a literal (String capacities concrete: a symbolic capacity exhausts CBMC's memory, DESIGN.md M6)
    let case = sym::below(10);
    cover!(case == 5, "five primes reachable");
    cover!(case == 8, "text with a non-prime reachable");
    match case {
        0 => check("\'"), 1 => check("′"), 2 => check("\'\'"), 3 => check("′″"), 4 => check("″″"), 5 => check("″‴"), 6 => check("⁗′"), 7 => check("‴‴‴"),
        8 => check("x′"), _ => check(""),
    }
}
'''


DOTS_HARNESS = r'''
// D-C01-e.2: merging dots into an ellipsis touches nothing but runs of exactly three consecutive <mo>.</mo>
HARNESS(merge_dots_keeps_everything_else, 10) {
    let n = 1 + sym::below(NCHILD);
    let row = dom::new_node(5);
    let mut kinds = [0u8; NCHILD];
    let mut i = 0;
    while i < NCHILD {
        if i < n {
            let k = sym::below(3) as u8;                    // 0: <mo>.</mo>   1: <mo>+</mo>   2: <mi>x</mi>
            kinds[i] = k;
            let c = dom::new_node(if k == 2 { 0 } else { 7 });
            c.set_text(if k == 0 { "." } else if k == 1 { "+" } else { "x" });
            row.append_child_id(c.id);
        }
        i += 1;
    }
    let r = merge_dots(row);
    let ch = r.children();
    let m = ch.len();
    cover!(m + 2 == n, "one ellipsis formed reachable");
    cover!(m == n && n >= 4, "nothing merged in a row of four or more reachable");
    // walk input and output together: every non-dot child survives in order; a child that disappears or becomes an ellipsis is one of three consecutive dots
    let mut a = 0; let mut b = 0;
    while a < n {
        let id_a = row.id + 1 + a as u8;
        if b < m && as_element(ch[b]).id == id_a {
            let t = as_text(as_element(ch[b])).as_bytes();
            if t.len() == 3 {       // became an ellipsis: it and the two following input children were dots
                assert!(a + 2 < n && kinds[a] == 0 && kinds[a + 1] == 0 && kinds[a + 2] == 0, "an ellipsis was invented where there were not three consecutive dots");
                a += 3; b += 1;
            } else {
                assert!(t.len() == 1 && ((kinds[a] == 0 && t[0] == 46u8) || (kinds[a] == 1 && t[0] == 43u8) || (kinds[a] == 2 && t[0] == 120u8)), "a token text was changed");
                a += 1; b += 1;
            }
        } else {
            assert!(false, "a child that is not part of a three-dot run was removed");
            a += 1;
        }
    }
    assert!(b == m, "children were added");
}
'''


DASH_HARNESS = r"""
// K-C01-f: canonicalize_dash (used by the mi and mtext arms of clean_mathml: the token text is REPLACED by what it returns)
HARNESS(dash_normalization_only_for_all_hyphen_tokens, 12) {
    let b: [u8; 5] = [sym::u8(), sym::u8(), sym::u8(), sym::u8(), sym::u8()];
    let n = sym::below(6);
    let mut i = 0; let mut other = false;
    while i < 5 { sym::assume(b[i] == 45u8 || b[i] == 97u8 || b[i] == 32u8); if i < n && b[i] != 45u8 { other = true; } i += 1; }     // '-', 'a', ' '
    let text = unsafe { core::str::from_utf8_unchecked(&b[..n]) };
    let r = canonicalize_dash(text);
    cover!(r.is_some() && n == 3, "three hyphens become a dash reachable");
    cover!(r.is_none() && other && n >= 4, "token with hyphens and other characters reachable");
    if let Some(d) = r {
        assert!(!other && n >= 2, "a token that holds other characters besides hyphens is replaced entirely by a dash: the other characters are lost");
        assert!(d == "\u{2014}" || d == "\u{2015}", "replacement is not one of the documented dashes");
    }
}
"""


def api_dash(vals=None, out=None):
    res = mcprobe([("mathml", "<math><mi>x</mi><mo>=</mo><mtext>yes---no</mtext></math>"), ("mathml", "<math><mi>a----b</mi></math>")])
    bad = [r for r in res if r[0] != "OK" or not ("yes---no" in r[1] or "a----b" in r[1])]
    return bool(bad), {"script": "set_mathml(token 'yes---no' / 'a----b'): the token text must survive", "results": res}


def api_msubsup(vals=None, out=None):
    res = mcprobe([("mathml", "<math><msubsup><mi>x</mi><mn>1</mn><mrow/></msubsup></math>"), ("mathml", "<math><mi>a</mi><mo>+</mo><msubsup><mi>x</mi><mn>1</mn><mtext></mtext></msubsup></math>")])
    bad = [r for r in res if r[0] != "OK" or ">x<" not in r[1] or ">1<" not in r[1]]
    return bool(bad), {"script": "set_mathml(msubsup with base x, subscript 1 and an EMPTY superscript): x and 1 must be in the canonical MathML", "results": res}


def build(run):
    run.outside += ["the shift/reduce re-bracketing, chemistry split/merge, trim_element, number folding (C16): DOM + regex + heuristics",
                    "whole-set_mathml leaf comparison (sxd_document cannot be executed symbolically, DESIGN.md M2)"]
    c = slicer.Source.get("src/canonicalize.rs")
    cm = c.find("fn clean_mathml")
    stmt = cm.find_stmt("let mut is_empty_script =")
    after = slicer.Span(c, stmt.end, cm.end, cm.name)
    ifb = c.find_expr('if element_name == "msubsup"', within=after)
    if ifb.start - stmt.end > 200:
        raise slicer.SliceError("the msubsup adjustment no longer follows the is_empty_script statement")
    run.uses(stmt, ifb)
    crate = kani_run.Crate("c01empty", EMPTY_HARNESS.replace("STMT", stmt.text).replace("IFBLOCK", ifb.text))
    run.bound("K-C01-e.1", "msub / msup / msubsup with every combination of empty / non-empty children")
    run.assume("CanonicalizeContext::is_empty_element replaced by a symbolic flag per child (its own definition is DOM code)")
    run.kani(crate, [dict(id="K-C01-e.1.empty_script_elimination", harness="empty_script_elimination_drops_nothing_visible", api=lambda v, o: api_msubsup(),
                          role=lambda v, o: "partly-empty-script-dropped", covers=["dropped msubsup reachable", "kept element with one empty script reachable"],
                          claim="is_empty_script => base and every script are empty")], timeout=300)

    # ---- K-C01-f: canonicalize_dash ------------------------------------------------------------------------------------------------
    import tables, rxsmt
    cd = cm.find("fn canonicalize_dash")
    run.uses(cd)
    rx = tables.used_lazy_regexes(c, cd.text, run)
    crate_f = kani_run.Crate("c01dash", (rxsmt.mock_statics(rx) if rx else "") + cd.text + DASH_HARNESS, native_deps={"regex": '"1.10"', "lazy_static": '"1.4"'} if rx else None)
    run.bound("K-C01-f", "canonicalize_dash verbatim on every text of 0..5 chars over {-, a, space}" + ("; regexes it uses replaced by generated DFA matchers: %s" % ", ".join(n for n, _ in rx) if rx else ""))
    run.kani(crate_f, [dict(id="K-C01-f.dash_normalization", harness="dash_normalization_only_for_all_hyphen_tokens", api=lambda v, o: api_dash(), role=lambda v, o: "token-replaced-by-dash",
                            covers=["three hyphens become a dash reachable", "token with hyphens and other characters reachable"],
                            claim="Some(dash) only for tokens made of hyphens alone (>= 2), and the dash is U+2014 or U+2015")], timeout=900)

    crate_i, lemmas_i = mc_lemma(run)
    run.kani(crate_i, lemmas_i, timeout=900)
    crate_h, lemma_h = ws_lemma(run)
    run.kani(crate_h, [lemma_h], timeout=900 if run.tier == "quick" else 3000)
    crate_g, lemmas_g = mms_loss_lemma(run)
    run.kani(crate_g, lemmas_g, timeout=900)

    # ---- K-C01-a: merge_prime_text ----------------------------------------------------------------------------------------------
    mp = cm.find("fn merge_prime_text")
    run.uses(mp)
    crate_p = kani_run.Crate("c01prime", PRIME_HARNESS + mp.text)
    run.bound("K-C01-a", "10 literal token texts (1..9 primes in mixed spellings, a text with a non-prime, the empty text), solver-selected")

    def api_prime(vals, out):
        res = mcprobe([("mathml", "<math><msup><mi>f</mi><mo>&#x2032;&#x2033;&#x2032;</mo></msup></math>")])
        import re as _re
        m = _re.search(r"<mo[^>]*>([^<]*)</mo>", res[0][1]) if res[0][0] == "OK" else None
        w = sum({"'": 1, "\u2032": 1, "\u2033": 2, "\u2034": 3, "\u2057": 4}.get(c, 100) for c in (m.group(1) if m else "x"))
        return w != 4, {"script": "f with the script prime+double prime+prime: the canonical mo must hold 4 primes", "result": res[0]}
    run.kani(crate_p, [dict(id="K-C01-a.merge_prime_text", harness="merge_prime_text_keeps_the_count", api=api_prime, role=lambda v, o: "prime-count-changed",
                            covers=["five primes reachable", "text with a non-prime reachable"],
                            claim="all primes => output consists of primes with the same total count; otherwise the text is unchanged")], timeout=600)

    # ---- D-C01-e.2: merge_dots over the model DOM ---------------------------------------------------------------------------------
    md = cm.find("fn merge_dots")
    run.uses(md)
    nchild = 5 if run.tier == "quick" else 6
    crate_d = kani_run.Crate("c01dots", prelude.MINIDOM + md.text + DOTS_HARNESS.replace("NCHILD", str(nchild)))
    run.bound("D-C01-e.2", "rows of 1..%d children, each <mo>.</mo>, <mo>+</mo> or <mi>x</mi> (model DOM)" % nchild)
    run.assume("sxd_document replaced by the model DOM (lib/prelude.py MINIDOM) incl. leaf texts, set_text and remove_from_parent")

    def api_dots(vals, out):
        import re as _re
        res = mcprobe([("mathml", "<math><mi>a</mi><mo>.</mo><mi>b</mi><mo>.</mo><mi>c</mi><mo>.</mo><mi>d</mi></math>")])
        leaves = "".join(_re.findall(r">([^<>\\n]+)</m[ion]>", res[0][1])) if res[0][0] == "OK" else ""
        leaves = leaves.replace("&#x2062;", "").replace("&#x2061;", "")
        return leaves != "a.b.c.d", {"script": "set_mathml(a . b . c . d as mi/mo tokens): every token must survive", "leaves": leaves}
    run.kani(crate_d, [dict(id="D-C01-e.2.merge_dots", harness="merge_dots_keeps_everything_else", api=api_dots, role=lambda v, o: "dots-merge-deletes-a-token",
                            covers=["one ellipsis formed reachable", "nothing merged in a row of four or more reachable"],
                            claim="only three consecutive <mo>.</mo> become one ellipsis; every other child and text is untouched, in order")], timeout=900)


# ======================================================================================================================
# D-C01-g: convert_to_mmultiscripts (a script with an empty base takes a neighbour as its base) loses no sibling
MMS_SHIM = r"""
macro_rules! debug { ($($t:tt)*) => {}; }
macro_rules! vec { () => { Vec::new() }; ($($x:expr),+ $(,)?) => {{ let mut v = Vec::new(); $( v.push($x); )+ v }}; }
pub struct OpInfo;
impl OpInfo { fn is_right_fence(&self) -> bool { false } fn is_left_fence(&self) -> bool { false } }
pub struct CanonicalizeContext;
impl CanonicalizeContext {
    fn find_operator(_c: Option<()>, _e: Element, _a: Option<Element>, _b: Option<Element>, _d: Option<Element>) -> OpInfo { OpInfo }
    CTX_FNS
}
const INTENT_ATTR: &str = "intent";
const CHANGED_ATTR: &str = "data-changed";
const ADDED_ATTR_VALUE: &str = "added";
const MAYBE_CHEMISTRY: &str = "data-maybe-chemistry";
fn likely_chem_element(_e: Element) -> isize { -1 }
fn likely_adorned_chem_formula(_e: Element) -> isize { -1 }
fn reachable(x: Element, v: &Vec<ChildOfElement>) -> bool {
    let mut cur = x.id; let mut k = 0;
    while k < 5 {
        let mut j = 0; while j < v.len() { if as_element(v[j]).id == cur { return true; } j += 1; }
        let p = unsafe { dom::PARENT[cur as usize] };
        if p == 255 { return false; }
        cur = p; k += 1;
    }
    false
}
fn leaf(kind: u8) -> Element<'static> { let e = dom::new_node(kind); dom::set_leaf(e, 4); e }
fn script_with(base: Element<'static>, s: Element<'static>) -> Element<'static> { let e = dom::new_node(8); e.append_child_id(base.id); e.append_child_id(s.id); e }
fn empty_base_script(s: Element<'static>) -> Element<'static> { script_with(dom::new_node(5), s) }          // <msub><mrow/> s </msub>
fn run_shape(shape: usize) {
    let row = dom::new_node(5);
    let two = leaf(6); let three = leaf(6); let x = leaf(0); let a = leaf(0); let b = leaf(0);
    let mut tracked = [two, x, x, x, x];
    let i;
    match shape {
        0 => {   // ^2 (a b)_3 X : a script whose base is an mrow sits between the empty-base script and the token to its right
            let ab = dom::new_node(5); ab.append_child_id(a.id); ab.append_child_id(b.id);
            row.append_child_id(empty_base_script(two).id); row.append_child_id(script_with(ab, three).id); row.append_child_id(x.id);
            tracked = [two, three, a, b, x]; i = 0;
        },
        1 => {   // ^2 a_3 X
            row.append_child_id(empty_base_script(two).id); row.append_child_id(script_with(a, three).id); row.append_child_id(x.id);
            tracked = [two, three, a, x, x]; i = 0;
        },
        2 => {   // ^2 _3 X : two prescripts
            row.append_child_id(empty_base_script(two).id); row.append_child_id(empty_base_script(three).id); row.append_child_id(x.id);
            tracked = [two, three, x, x, x]; i = 0;
        },
        3 => {   // X ^2 : postscript
            row.append_child_id(x.id); row.append_child_id(empty_base_script(two).id);
            tracked = [two, x, x, x, x]; i = 1;
        },
        _ => {   // ^2 (a b) X : an mrow between the script and the token
            let ab = dom::new_node(5); ab.append_child_id(a.id); ab.append_child_id(b.id);
            row.append_child_id(empty_base_script(two).id); row.append_child_id(ab.id); row.append_child_id(x.id);
            tracked = [two, a, b, x, x]; i = 0;
        },
    }
    let mut children = row.children();
    let n0 = children.len();
    let next = convert_to_mmultiscripts(&mut children, i);
    cover!(next >= 1 && n0 >= 2, "the conversion returns reachable");
    assert!(next >= 1 && next <= children.len(), "the index to continue from is outside the child list");
    let mut k = 0;
    while k < 5 { assert!(reachable(tracked[k], &children), "a visible token of a sibling is no longer in the row after the conversion: content lost"); k += 1; }
}
HARNESS(mms_shape_0, 16, [std::string::ToString::to_string => to_string_stub, str::trim => stubs::trim]) { run_shape(0) }
HARNESS(mms_shape_1, 16, [std::string::ToString::to_string => to_string_stub, str::trim => stubs::trim]) { run_shape(1) }
HARNESS(mms_shape_2, 16, [std::string::ToString::to_string => to_string_stub, str::trim => stubs::trim]) { run_shape(2) }
HARNESS(mms_shape_3, 16, [std::string::ToString::to_string => to_string_stub, str::trim => stubs::trim]) { run_shape(3) }
HARNESS(mms_shape_4, 16, [std::string::ToString::to_string => to_string_stub, str::trim => stubs::trim]) { run_shape(4) }
"""


def api_mms_loss(vals=None, out=None):
    import re
    res = mcprobe([("mathml", "<math><mrow><msup><mrow/><mn>2</mn></msup><msub><mrow><mi>a</mi><mi>b</mi></mrow><mn>3</mn></msub><mi>X</mi></mrow></math>")])
    leaves = "".join(re.findall(r">([^<>\s]+)</m[ion]>", res[0][1])).replace("&#x2062;", "") if res[0][0] == "OK" else ""
    return sorted(leaves) != sorted("2ab3X"), {"script": "set_mathml(^2 (ab)_3 X): all five tokens must be in the canonical MathML", "leaves": leaves, "result": res[0]}


def mms_loss_lemma(run):
    c = slicer.Source.get("src/canonicalize.rs")
    cm = c.find("fn clean_mathml")
    fns = [cm.find("fn convert_to_mmultiscripts"), cm.find("fn add_to_scripts"), cm.find("fn add_pair"), cm.find("fn choose_base_of_mmultiscripts")]
    imp = c.find("impl CanonicalizeContext")
    ctx = [imp.find("fn is_empty_element"), imp.find("fn create_empty_element")]
    hack = c.find("const MHCHEM_MMULTISCRIPTS_HACK")
    run.uses(*fns, *ctx, hack)
    from checks import C09
    attr_shim = C09.LIFT_SHIM[:C09.LIFT_SHIM.index("const CHANGED_ATTR")]
    body0 = prelude.STR_STUBS + prelude.PHF_MOCK + prelude.MINIDOM + prelude.TOSTRING_STUB + attr_shim + hack.text + "\n" + \
        MMS_SHIM.replace("CTX_FNS", "\n".join(f.text for f in ctx)) + "\n".join(f.text for f in fns)
    helpers = slicer.called_helpers(c, "\n".join(f.text for f in fns), body0)
    run.uses(*helpers)
    crate = kani_run.Crate("c01mms", body0 + "\n" + "\n".join(h.text for h in helpers), native_deps=prelude.PHF_NATIVE_DEP)
    run.bound("D-C01-g", "convert_to_mmultiscripts, add_to_scripts, add_pair, choose_base_of_mmultiscripts (with its nested helpers), is_empty_element, create_empty_element, add_attrs verbatim on the model DOM; "
              "five row shapes (one harness each): ^2 (ab)_3 X, ^2 a_3 X, ^2 _3 X, X ^2, ^2 (ab) X")
    run.assume("model DOM (MINIDOM); find_operator never reports a fence (no grouped base), likely_chem_element / likely_adorned_chem_formula return -1 (not chemistry), debug! empty, vec! builds the model vector; str::trim stubbed by a byte loop over the Unicode White_Space set")
    shapes = ["^2 (ab)_3 X", "^2 a_3 X", "^2 _3 X", "X ^2", "^2 (ab) X"]
    return crate, [dict(id="D-C01-g.convert_to_mmultiscripts_loses_no_sibling[%s]" % sh, harness="mms_shape_%d" % k, api=lambda v, o: api_mms_loss(),
                        role=lambda v, o: "sibling-between-script-and-base-dropped",
                        covers=["the conversion returns reachable"], deep=sh in ("^2 a_3 X", "^2 _3 X"),      # the two heaviest shapes (270-290 s each): thorough tier only
                        claim="every visible token of the row is still under one of the row's children after the conversion") for k, sh in enumerate(shapes)]



# ======================================================================================================================
# D-C01-i: merge_chars (runs of leaves holding only '_' are merged into the first leaf of the run) keeps every '_' and every other child
MC_SHIM = r"""
#[cfg(kani)] use rxmock::Regex;
#[cfg(not(kani))] use regex::Regex;
fn go(n: usize, code: usize) {
    let row = dom::new_node(5);
    let mut kind = [0usize; 4];            // 0 = <mi>_</mi>, 1 = <mi>x</mi>, 2 = <mfrac/> (not a leaf)
    let mut ids = [0u8; 4];
    let mut c = code; let mut i = 0; let mut want = 0;
    while i < 4 {
        if i < n {
            kind[i] = c % 3; c /= 3;
            let e = match kind[i] { 0 => { let e = dom::new_node(0); dom::set_leaf(e, 21); want += 1; e } 1 => { let e = dom::new_node(0); dom::set_leaf(e, 4); e } _ => dom::new_node(9) };
            ids[i] = e.id; row.append_child_id(e.id);
        }
        i += 1;
    }
    let merged = merge_chars(row, &IS_UNDERSCORE);                                     // must not panic
    cover!(n >= 3 && kind[n - 3] == 0 && kind[n - 2] == 0 && kind[n - 1] == 2, "run of two underscores ended by a non-leaf reachable");
    cover!(n >= 3 && kind[n - 3] == 1 && kind[n - 2] == 0 && kind[n - 1] == 0, "run of two underscores at the end reachable");
    // every '_' is still there, every other child is still there in order, nothing was added
    let children = merged.children();
    let mut have = 0; let mut j = 0; let mut k = 0;
    while k < 4 {
        if k < n && kind[k] != 0 {
            while j < children.len() && is_leaf(as_element(children[j])) && as_text(as_element(children[j])).as_bytes()[0] == b'_' { have += as_text(as_element(children[j])).len(); j += 1; }
            assert!(j < children.len() && as_element(children[j]).id == ids[k], "merging '_' leaves removed or reordered another child");
            j += 1;
        }
        k += 1;
    }
    while j < children.len() { let e = as_element(children[j]); assert!(is_leaf(e) && as_text(e).as_bytes()[0] == b'_', "merging '_' leaves added a child"); have += as_text(e).len(); j += 1; }
    assert!(have == want, "merging a run of '_' leaves lost (or invented) underscore characters");
}
MC_HARNESSES
"""


def mc_lemma(run):
    import rxsmt, tables
    c = slicer.Source.get("src/canonicalize.rs")
    f = c.find("fn clean_mathml", "fn merge_chars")
    run.uses(f)
    pat, sp = tables.lazy_regex(c, "IS_UNDERSCORE")
    run.uses(sp)
    # quick: every row of 1..3 children; thorough: additionally every row of 4 children (three harnesses of 27 rows: one harness of 120 rows exhausts 12 GB)
    groups = [("merge_chars_rows_up_to_3", [(n, code) for n in range(1, 4) for code in range(3 ** n)])]
    if run.tier == "thorough":
        groups += [("merge_chars_rows_of_4_%d" % g, [(4, code) for code in range(81) if code % 3 == g]) for g in range(3)]
    hs = []
    for hname, cases in groups:
        hs.append("HARNESS(%s, 12, [std::string::ToString::to_string => to_string_stub]) {\n    match sym::below(%d) {\n%s\n        _ => (),\n    }\n}" % (
            hname, len(cases), "\n".join("        %d => go(%d, %d)," % (k, n, code) for k, (n, code) in enumerate(cases))))
    body = prelude.MINIDOM + prelude.TOSTRING_STUB + rxsmt.mock_statics([("IS_UNDERSCORE", pat)]) + f.text + MC_SHIM.replace("MC_HARNESSES", "\n".join(hs))
    crate = kani_run.Crate("c01mc", body, native_deps={"regex": '"1.10"', "lazy_static": '"1.4"'})
    maxn = 3 if run.tier == "quick" else 4
    run.bound("D-C01-i", "merge_chars verbatim with the IS_UNDERSCORE pattern (%r, generated DFA) on every row of 1..%d children, each <mi>_</mi>, <mi>x</mi> or a non-leaf element (model DOM; solver-selected rows)" % (pat, maxn))
    run.assume("D-C01-i: model DOM (MINIDOM, leaf texts '_' .. '____' kept exactly); IS_UNDERSCORE replaced by the DFA generated from its pattern text")

    def api_mc(vals, out):
        res = mcprobe([("mathml", "<math><mi>_</mi><mi>_</mi><mfrac><mn>1</mn><mn>2</mn></mfrac></math>")])
        n = res[0][1].count("_") if res[0][0] == "OK" else -1
        return n != 2, {"script": "set_mathml(_ _ 1/2): both underscores must survive", "underscores_in_result": n, "result": res[0]}
    return crate, [dict(id="D-C01-i.merge_chars." + hname.split("merge_chars_")[1], harness=hname, api=api_mc, role=lambda v, o: "underscore-run-loses-characters",
                        covers=["run of two underscores ended by a non-leaf reachable", "run of two underscores at the end reachable"],
                        claim="no panic; the number of '_' characters in the row is unchanged; every other child is kept, in order; nothing is added") for hname, _ in groups]


# ======================================================================================================================
# D-C01-h: merge_whitespace (runs of blank mtext are folded into a width attribute of a neighbour) removes nothing but blanks
WS_SHIM = r"""
impl<'a> dom::Element<'a> {
    /// only data-width is asked for: every blank mtext carries it (set by the mtext arm of clean_mathml / the placeholder constructors)
    fn attribute_value(&self, nm: &str) -> Option<&'static str> { if nm == "data-width" && name(self) == "mtext" && as_text(*self) == "\u{a0}" { Some("1") } else { None } }
}
#[cfg(kani)]
fn parse_stub<F: core::str::FromStr>(_s: &str) -> Result<F, F::Err> { Ok(unsafe { core::mem::zeroed() }) }       // only f64 widths are parsed here; the number is not the subject
fn go(n: usize, bits: usize) {
    let row = dom::new_node(5);
    let mut blank = [false; 4];
    let mut ids = [0u8; 4];
    let mut i = 0;
    while i < 4 {
        if i < n {
            blank[i] = (bits >> i) & 1 == 1;
            let e = if blank[i] { let e = dom::new_node(4); dom::set_leaf(e, 20); e } else { let e = dom::new_node(0); dom::set_leaf(e, 4); e };
            ids[i] = e.id; row.append_child_id(e.id);
        }
        i += 1;
    }
    let mut children = row.children();
    merge_whitespace(&mut children);                                            // must not panic
    cover!(n >= 3 && blank[0] && blank[1] && !blank[2], "run of two blanks before a token reachable");
    cover!(n >= 3 && blank[n - 1] && !blank[n - 2], "trailing blank reachable");
    // every non-blank child is still there, in order, and nothing was added
    let mut j = 0; let mut k = 0;
    while k < 4 {
        if k < n && !blank[k] { assert!(j < children.len() && as_element(children[j]).id == ids[k], "merging blanks removed or reordered a token"); j += 1; }
        else if k < n && j < children.len() && as_element(children[j]).id == ids[k] { j += 1; }     // a blank that was kept (e.g. the only child)
        k += 1;
    }
    assert!(j == children.len(), "merging blanks added a child");
}
HARNESS(merge_whitespace_removes_only_blanks, 12, [std::string::ToString::to_string => to_string_stub, str::parse => parse_stub]) {
    // solver-selected concrete rows: every row of 1..WS_MAXN children, each a blank or a token
    match sym::below(WS_NCASES) {
WS_ARMS
        _ => go(1, 0),
    }
}
"""


def ws_lemma(run):
    c = slicer.Source.get("src/canonicalize.rs")
    f = c.find("fn clean_mathml", "fn merge_whitespace")
    run.uses(f)
    maxn = 4
    crate = kani_run.Crate("c01ws", prelude.MINIDOM + prelude.TOSTRING_STUB + f.text + WS_SHIM.replace("WS_ARMS", "\n".join("        %d => go(%d, %d)," % (k, n, bits) for k, (n, bits) in enumerate((n, bits) for n in range(1, maxn + 1) for bits in range(2 ** n)))).replace("WS_NCASES", str(sum(2 ** n for n in range(1, maxn + 1)))).replace("WS_MAXN", str(maxn)))
    run.bound("D-C01-h", "merge_whitespace verbatim on rows of 1..%d children, each a blank mtext (with data-width) or an <mi>x</mi> (model DOM)" % maxn)
    run.assume("model DOM (MINIDOM); every blank mtext carries data-width (invariant established by the mtext arm of clean_mathml); f64 parsing / formatting of the widths stubbed (the number is not the subject)")

    def api_ws(vals, out):
        import re
        res = mcprobe([("mathml", "<math><mi>a</mi><mtext>&#xA0;</mtext><mtext>&#xA0;</mtext><mi>b</mi><mtext>&#xA0;</mtext></math>")])
        leaves = "".join(re.findall(r">([^<>\s]+)</m[ion]>", res[0][1])).replace("&#x2062;", "") if res[0][0] == "OK" else ""
        return leaves != "ab", {"script": "set_mathml(a, two blank mtext, b, blank mtext): a and b must survive", "leaves": leaves, "result": res[0]}
    return crate, dict(id="D-C01-h.merge_whitespace", harness="merge_whitespace_removes_only_blanks", api=api_ws, role=lambda v, o: "whitespace-merge-drops-a-token",
                       covers=["run of two blanks before a token reachable", "trailing blank reachable"],
                       claim="no panic; the non-blank children are kept, in order; nothing is added")
