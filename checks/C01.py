"""C01 — Canonicalization never loses or invents visible content (DESIGN.md §3 C01).
Engine K on the statement groups / leaf-text kernels of clean_mathml that decide whether content is dropped or rewritten."""
import kani_run
import prelude
import slicer
from framework import mcprobe

EMPTY_HARNESS = r'''
#[derive(Clone, Copy)] pub struct El { empty: bool }
pub struct CanonicalizeContext;
impl CanonicalizeContext { fn is_empty_element(e: El) -> bool { e.empty } }
fn as_element(e: El) -> El { e }
/// the statements of clean_mathml that decide whether a script element is "completely empty" (and is then dropped), verbatim
fn script_is_dropped(element_name: &str, children: &[El; 3]) -> bool {
    STMT
    IFBLOCK
    is_empty_script
}
// K-C01-e.1: a script element is dropped as "empty" only if ALL of its children are empty
HARNESS(empty_script_elimination_drops_nothing_visible, 10) {
    let children = [El { empty: sym::bool() }, El { empty: sym::bool() }, El { empty: sym::bool() }];
    let kind = sym::below(3);
    let dropped = match kind { 0 => script_is_dropped("msub", &children), 1 => script_is_dropped("msup", &children), _ => script_is_dropped("msubsup", &children) };
    let n = if kind == 2 { 3 } else { 2 };
    cover!(dropped && kind == 2, "dropped msubsup reachable");
    cover!(!dropped && children[1].empty, "kept element with one empty script reachable");
    if dropped {
        let mut i = 0;
        while i < n { assert!(children[i].empty, "a script element with visible content in one child is dropped as 'completely empty'"); i += 1; }
    }
}
'''


PRIME_HARNESS = r'''
macro_rules! eprint { ($($t:tt)*) => { }; }
const PRIMES: [char; 6] = ['\'', '′', '″', '‴', '⁗', 'x'];
fn weight(c: char) -> usize { match c { '\'' | '′' => 1, '″' => 2, '‴' => 3, '⁗' => 4, _ => 0 } }
// K-C01-a: merging primes keeps their total count (prime/dot/bar merging is a documented normalisation: nothing else may change)
fn check(text: &str) {
    let mut total = 0; let mut all_primes = true;
    for c in text.chars() { if weight(c) == 0 { all_primes = false; } total += weight(c); }
    let out = merge_prime_text(text);
    if all_primes {
        let mut w = 0;
        for c in out.chars() { assert!(weight(c) >= 1 && c != '\'', "merged text contains a non-prime"); w += weight(c); }
        assert!(w == total, "merging primes changed the number of primes");
    } else {
        assert!(out.as_bytes() == text.as_bytes(), "text with other characters was changed");
    }
    core::mem::forget(out);
}
HARNESS(merge_prime_text_keeps_the_count, 14) {
    // the solver picks the case; every path runs on a literal (String capacities concrete: a symbolic capacity exhausts CBMC's memory, DESIGN.md M6)
    let case = sym::below(10);
    cover!(case == 5, "five primes reachable");
    cover!(case == 8, "text with a non-prime reachable");
    match case {
        0 => check("\'"), 1 => check("′"), 2 => check("\'\'"), 3 => check("′″"), 4 => check("″″"), 5 => check("″‴"), 6 => check("⁗′"), 7 => check("‴‴‴"),
        8 => check("x′"), _ => check(""),
    }
}
'''


def api_msubsup(vals=None, out=None):
    res = mcprobe([("mathml", "<math><msubsup><mi>x</mi><mn>1</mn><mrow/></msubsup></math>"), ("mathml", "<math><mi>a</mi><mo>+</mo><msubsup><mi>x</mi><mn>1</mn><mtext></mtext></msubsup></math>")])
    bad = [r for r in res if r[0] != "OK" or ">x<" not in r[1] or ">1<" not in r[1]]
    return bool(bad), {"script": "set_mathml(msubsup with base x, subscript 1 and an EMPTY superscript): x and 1 must be in the canonical MathML", "results": res}


def build(run):
    run.outside += ["the shift/reduce re-bracketing, chemistry split/merge, trim_element, number folding (C16): DOM + regex + heuristics",
                    "whole-set_mathml leaf comparison (sxd_document cannot be executed symbolically, DESIGN.md M2)"]
    c = slicer.Source.get("src/canonicalize.rs")
    cm = c.find("fn clean_mathml")
    stmt = cm.find_stmt("let mut is_empty_script =")
    after = slicer.Span(c, stmt.end, cm.end, cm.name)
    ifb = c.find_expr('if element_name == "msubsup"', within=after)
    if ifb.start - stmt.end > 200:
        raise slicer.SliceError("the msubsup adjustment no longer follows the is_empty_script statement")
    run.uses(stmt, ifb)
    crate = kani_run.Crate("c01empty", EMPTY_HARNESS.replace("STMT", stmt.text).replace("IFBLOCK", ifb.text))
    run.bound("K-C01-e.1", "msub / msup / msubsup with every combination of empty / non-empty children")
    run.assume("CanonicalizeContext::is_empty_element replaced by a symbolic flag per child (its own definition is DOM code)")
    run.kani(crate, [dict(id="K-C01-e.1.empty_script_elimination", harness="empty_script_elimination_drops_nothing_visible", api=lambda v, o: api_msubsup(),
                          role=lambda v, o: "partly-empty-script-dropped", covers=["dropped msubsup reachable", "kept element with one empty script reachable"],
                          claim="is_empty_script => base and every script are empty")], timeout=300)

    # ---- K-C01-a: merge_prime_text ----------------------------------------------------------------------------------------------
    mp = cm.find("fn merge_prime_text")
    run.uses(mp)
    crate_p = kani_run.Crate("c01prime", PRIME_HARNESS + mp.text)
    run.bound("K-C01-a", "10 literal token texts (1..9 primes in mixed spellings, a text with a non-prime, the empty text), solver-selected")

    def api_prime(vals, out):
        res = mcprobe([("mathml", "<math><msup><mi>f</mi><mo>&#x2032;&#x2033;&#x2032;</mo></msup></math>")])
        import re as _re
        m = _re.search(r"<mo[^>]*>([^<]*)</mo>", res[0][1]) if res[0][0] == "OK" else None
        w = sum({"'": 1, "\u2032": 1, "\u2033": 2, "\u2034": 3, "\u2057": 4}.get(c, 100) for c in (m.group(1) if m else "x"))
        return w != 4, {"script": "f with the script prime+double prime+prime: the canonical mo must hold 4 primes", "result": res[0]}
    run.kani(crate_p, [dict(id="K-C01-a.merge_prime_text", harness="merge_prime_text_keeps_the_count", api=api_prime, role=lambda v, o: "prime-count-changed",
                            covers=["five primes reachable", "text with a non-prime reachable"],
                            claim="all primes => output consists of primes with the same total count; otherwise the text is unchanged")], timeout=600)
