"""C17 — Equivalent XML spellings give identical results (DESIGN.md §3 C17).
Engine Z: the decisions are taken by five regexes and the 2125-entry entity table in set_mathml; both are
extracted from the source on every run and handed to the solver."""
import html.entities
import re

import rxsmt
import slicer
import tables
from framework import mcprobe
from smt_run import smt_str

XML_EXC = {  # htmlmathml-f.ent (MathCAT's stated source) differs from HTML5 here on purpose: combining mark preceded by a space
    "DotDot", "DownBreve", "TripleDot", "tdot"}


def strip_ids(s):
    return re.sub(r" id='[^']*'| data-id-added='true'", "", s)


def canon(expr):
    r = mcprobe([("mathml", expr)])[0]
    return r[0], (strip_ids(r[1]) if r[0] == "OK" else r[1])


def numeric(s):
    return "".join("&#x%X;" % ord(c) for c in s)


def smt_str_re(c):
    return '(str.to_re "\\u{%x}")' % ord(c)


def build(run):
    run.outside += ["comment / processing-instruction / mixed-content handling in trim_element (DOM code)",
                    "speech and braille equality (follows from canonical-MathML equality only through the rule interpreter)"]
    src = slicer.Source.get("src/interface.rs")
    fn = src.find("fn set_mathml")
    run.uses(fn)
    # ---- Z-C17-d: the white-space collapsing regex of trim_element covers exactly the collapsible white space (space, tab, LF, CR) --------
    te = src.find("fn trim_element")
    ws_pat, ws_sp = tables.lazy_regex(src, "WHITESPACE_MATCH", within=te)
    ws_const = te.find_stmt("const WHITESPACE")
    run.uses(ws_sp, ws_const)
    ws_chars = [slicer.unquote_char(t.text) if hasattr(slicer, "unquote_char") else None for t in slicer.lex(ws_const.text) if t.kind == "char"]
    if not ws_chars or any(c is None for c in ws_chars):
        import ast as _ast
        ws_chars = []
        for t in slicer.lex(ws_const.text):
            if t.kind == "char":
                body = t.text[1:-1]
                m = re.match(r"\\u\{([0-9A-Fa-f]+)\}$", body)
                ws_chars.append(chr(int(m.group(1), 16)) if m else _ast.literal_eval("'" + body + "'"))
    W = "(re.union %s re.none)" % " ".join(smt_str_re(c) for c in sorted(set(ws_chars + [" ", "\t", "\n", "\r"])))
    run.bound("Z-C17-d", "WHITESPACE_MATCH of trim_element (%r) against the collapsible white space {space, tab, LF, CR} named in the source comment and in the WHITESPACE constant (%s); all code points" % (ws_pat, " ".join("U+%04X" % ord(c) for c in ws_chars)))

    def w_ws(mdl, pat=ws_pat):
        t = "a" + mdl["s"] + "b"
        out = rxsmt.replace_all_real(pat, " ", t)
        expect = "a b" if all(ch in " \t\n\r" for ch in mdl["s"]) and mdl["s"] else None
        if out is None or (expect is not None and out == expect):
            return None
        if expect is None and out == t:
            return None
        return ("whitespace-collapse-differs", "trim_element: WHITESPACE_MATCH %r turns %r into %r (collapsible white space must become one space, nothing else may be touched)" % (pat, t, out), {"text": t, "result": out})
    run.smt("Z-C17-d.collapses_all_collapsible_white_space", "(declare-const s String)\n(assert (str.in_re s (re.+ %s)))\n(assert (not (str.in_re s %s)))" % (W, rxsmt.core_lang(ws_pat)),
            get=("s",), witness=w_ws, vacuity="(declare-const s String)\n(assert (str.in_re s (re.+ %s)))" % W,
            claim="every non-empty run of space / tab / LF / CR is matched as a whole (so it is replaced by one space)")
    run.smt("Z-C17-d.collapses_nothing_else", "(declare-const s String)\n(assert (str.in_re s %s))\n(assert (not (str.in_re s (re.+ %s))))" % (rxsmt.core_lang(ws_pat), W),
            get=("s",), witness=w_ws, vacuity="(declare-const s String)\n(assert (str.in_re s %s))" % rxsmt.core_lang(ws_pat),
            claim="a match never contains anything but collapsible white space")

    pats = {}
    for n in ("MATHJAX_V2", "MATHJAX_V3", "NAMESPACE_DECL", "PREFIX", "HTML_ENTITIES"):
        pats[n], sp = tables.lazy_regex(src, n, within=fn)
        run.uses(sp)
    ent_src = slicer.Source.get("src/entities.in")
    run.uses(ent_src.whole())
    ents = tables.string_map(ent_src.src)
    run.bound("Z-C17", "strings of unbounded length (z3 sequence/regex theory); entity table: all %d entries" % len(ents))
    run.assume("Perl/POSIX classes are the exact code-point sets computed by the real regex crate (native/rxcheck)",
               "oracle for entity values: Python html.entities.html5 (WHATWG table), except the 4 names where htmlmathml-f.ent documents a leading space")

    keys_in = "(or %s)" % " ".join("(= k %s)" % smt_str(k) for k in ents)
    ent_core = rxsmt.core_lang(pats["HTML_ENTITIES"])

    # ---- a.1 every table key is recognised by the substitution regex --------------------------------
    def w_name(model):
        k = model["k"]
        if k not in ents:
            return None
        st1, c1 = canon("<math><mtext>&%s;</mtext></math>" % k)
        st2, c2 = canon("<math><mtext>%s</mtext></math>" % numeric(re.sub(r"&#x([0-9A-Fa-f]+);", lambda m: chr(int(m.group(1), 16)), ents[k])))
        if st1 == st2 and c1 == c2:
            return None
        role = "entity-name-with-non-letter" if re.search(r"[^A-Za-z]", k) else "entity-name:" + k
        return role, "entity &%s; of the table is not substituted (regex %r): %s %s vs numeric form %s" % (k, pats["HTML_ENTITIES"], st1, c1[:80], st2), \
            {"entity": k, "named": [st1, c1], "numeric": [st2, c2]}
    run.smt("Z-C17-a.entity_names_matched",
            "(declare-const k String)\n(assert %s)\n(assert (not (str.in_re (str.++ \"&\" k \";\") %s)))" % (keys_in, ent_core),
            get=("k",), witness=w_name, vacuity="(declare-const k String)\n(assert %s)" % keys_in,
            claim="for every key k of entities.in, HTML_ENTITIES matches '&k;' as a whole (so it is substituted)")

    # ---- a.2 table values equal the independent oracle -----------------------------------------------
    def dec(v):
        return re.sub(r"&#x([0-9A-Fa-f]+);", lambda m: chr(int(m.group(1), 16)), v)
    h5 = html.entities.html5
    mc_fn = "(define-fun mc ((k String)) String %s)" % _ite_chain([(k, dec(v)) for k, v in ents.items()])
    h5_fn = "(define-fun h5 ((k String)) String %s)" % _ite_chain([(k, h5.get(k + ";", "￿")) for k in ents])
    exc = " ".join("(distinct k %s)" % smt_str(k) for k in sorted(XML_EXC))

    def w_value(model):
        k = model["k"]
        st1, c1 = canon("<math><mtext>&%s;</mtext></math>" % k)
        st2, c2 = canon("<math><mtext>%s</mtext></math>" % numeric(h5.get(k + ";", "")))
        if st1 == st2 and c1 == c2:
            return None
        return "entity-value:" + k, "entity &%s; maps to %r, Unicode/HTML5 says %r" % (k, dec(ents[k]), h5.get(k + ";")), \
            {"entity": k, "named": [st1, c1], "numeric": [st2, c2]}
    run.smt("Z-C17-a.entity_values",
            "%s\n%s\n(declare-const k String)\n(assert %s)\n(assert (and %s))\n(assert (distinct (mc k) (h5 k)))" % (mc_fn, h5_fn, keys_in, exc),
            get=("k",), witness=w_value, claim="for every key k: decoded table value = the character(s) HTML5/W3C assign to &k;")

    # ---- a.3 substituted text cannot create markup ---------------------------------------------------
    vals_in = "(or %s)" % " ".join("(and (= k %s) (= v %s))" % (smt_str(k), smt_str(v)) for k, v in ents.items())
    # substitution happens on the raw document, i.e. also inside quoted attribute values: besides '<' and '&' a raw quote character would end the attribute
    safe = '(re.+ (re.union (re.diff re.allchar (re.union (str.to_re "<") (str.to_re "&") (str.to_re """") (str.to_re "\'"))) (re.++ (str.to_re "&#x") (re.+ (re.union (re.range "0" "9") (re.range "A" "F") (re.range "a" "f"))) (str.to_re ";"))))'

    def w_safe(model):
        k = model["k"]
        # replay: the entity in text and inside a double- and a single-quoted attribute value must behave like its numeric spelling
        num = numeric(dec(ents[k])) if ents[k] else ""
        outs = []
        for tmpl in ("<math><mtext>a%sb</mtext></math>", '<math><mi data-x="a%sb">x</mi></math>', "<math><mi data-x='a%sb'>x</mi></math>"):
            outs.append((canon(tmpl % ("&%s;" % k)), canon(tmpl % num)))
        if ents[k] and all(a == b for a, b in outs):
            return None
        return ("entity-value-unsafe:" + k, "value %r of &%s; is empty or contains raw markup / a raw quote: named vs numeric spelling differ: %r" % (ents[k], k, [x for x in outs if x[0] != x[1]][:1]), {"api": outs})
    run.smt("Z-C17-a.entity_values_safe",
            "(declare-const k String)(declare-const v String)\n(assert %s)\n(assert (not (str.in_re v %s)))" % (vals_in, safe),
            get=("k", "v"), witness=w_safe, claim="every table value is non-empty and contains '<', '&' and quote characters only as hex character references")

    # ---- b.1 the entity regex never fires inside a numeric character reference ---------------------
    numref = '(re.union (re.++ (str.to_re "&#") (re.+ (re.range "0" "9")) (str.to_re ";")) (re.++ (str.to_re "&#x") (re.+ (re.union (re.range "0" "9") (re.range "A" "F") (re.range "a" "f"))) (str.to_re ";")))'

    def w_numref(model):
        s = model["s"]
        caps = rxsmt.captures_real(pats["HTML_ENTITIES"], s)
        if caps is None:
            return None
        return "numeric-reference-matched", "HTML_ENTITIES matches inside the numeric reference %r" % s, {"s": s, "captures": caps}
    run.smt("Z-C17-b.numeric_refs_untouched",
            "(declare-const s String)\n(assert (str.in_re s %s))\n(assert (str.in_re s %s))" % (numref, rxsmt.search_lang(pats["HTML_ENTITIES"])),
            get=("s",), witness=w_numref, vacuity="(declare-const s String)\n(assert (str.in_re s %s))" % numref,
            claim="no decimal or hex character reference contains a match of HTML_ENTITIES")

    # ---- b.2 PREFIX cannot fire inside character data or attribute values ----------------------------
    chardata = '(re.* (re.diff re.allchar (str.to_re "<")))'

    def w_prefix(model):
        s = model["s"]
        if rxsmt.captures_real(pats["PREFIX"], s) is None:
            return None
        a = canon("<math><mtext>%s</mtext></math>" % s.replace("&", "&amp;"))
        b = canon("<math><mtext>%s</mtext></math>" % numeric(s))
        if a == b:
            return None
        return "text-resembling-prefixed-tag", "PREFIX rewrites character data %r" % s, {"text": s, "literal": a, "numeric": b}
    run.smt("Z-C17-b.prefix_not_in_text",
            "(declare-const s String)\n(assert (str.in_re s %s))\n(assert (str.in_re s %s))" % (chardata, rxsmt.search_lang(pats["PREFIX"])),
            get=("s",), witness=w_prefix, vacuity="(declare-const s String)\n(assert (str.in_re s %s))" % chardata,
            claim="PREFIX needs a '<', which well-formed character data and attribute values cannot contain")

    # ---- b.3 / c: regexes that do fire on content: each is a separate query = one role ----------------
    text_lang = '(re.+ (re.union (re.range "a" "z") (re.range "A" "Z") (re.range "0" "9") (str.to_re ":") (str.to_re "=") (str.to_re "-") (str.to_re " ") (str.to_re "\'") (str.to_re """")))'

    def mk_w_text(pat_name, role):
        def w(model):
            s = model["s"]
            if rxsmt.captures_real(pats[pat_name], s) is None:
                return None
            a = canon("<math><mtext>%s</mtext></math>" % s)
            b = canon("<math><mtext>%s</mtext></math>" % numeric(s))
            if a == b:
                return None
            return role, "%s rewrites the character data %r: %r vs numeric spelling %r" % (pat_name, s, a[1][:60], b[1][:60]), {"text": s, "literal": a, "numeric": b}
        return w
    for pat_name, role in (("NAMESPACE_DECL", "text-resembling-namespace-decl"), ("MATHJAX_V2", "text-resembling-mathjax-class"),
                           ("MATHJAX_V3", "text-resembling-mathjax-class")):
        run.smt("Z-C17-b.%s_not_in_text" % pat_name.lower(),
                "(declare-const s String)\n(assert (str.in_re s %s))\n(assert (str.in_re s %s))" % (text_lang, rxsmt.search_lang(pats[pat_name])),
                get=("s",), witness=mk_w_text(pat_name, role),
                claim="%s does not rewrite token text that merely looks like an attribute" % pat_name)

    # ---- c.1 namespace prefixes: every NCName prefix is stripped ------------------------------------
    ncname = '(re.++ (re.union (re.range "a" "z") (re.range "A" "Z") (str.to_re "_")) (re.* (re.union (re.range "a" "z") (re.range "A" "Z") (re.range "0" "9") (str.to_re "_") (str.to_re "-") (str.to_re "."))))'
    prefix_core = rxsmt.core_lang(pats["PREFIX"])
    ns_core = rxsmt.core_lang(pats["NAMESPACE_DECL"])

    def w_ncname(model):
        p = model["p"]
        a = canon('<%s:math xmlns:%s="http://www.w3.org/1998/Math/MathML"><%s:mi>x</%s:mi></%s:math>' % (p, p, p, p, p))
        b = canon('<math xmlns="http://www.w3.org/1998/Math/MathML"><mi>x</mi></math>')
        if a == b:
            return None
        return "prefix-not-all-letters", "namespace prefix %r is not stripped: %s" % (p, a[1][:100]), {"prefix": p, "prefixed": a, "default": b}
    run.smt("Z-C17-c.ncname_prefix_not_truncated",
            "(declare-const p String)(declare-const q String)\n(assert (str.in_re p %s))\n(assert (str.prefixof q (str.++ \"xmlns:\" p)))\n"
            "(assert (< (str.len q) (+ 6 (str.len p))))\n(assert (str.in_re q %s))\n(assert (not (str.in_re (str.++ \"xmlns:\" p) %s)))" % (ncname, ns_core, ns_core),
            get=("p", "q"), witness=w_ncname,
            claim="for every ASCII NCName p: NAMESPACE_DECL never matches a proper prefix of 'xmlns:p' without matching all of it (which would corrupt the attribute name)")

    # ---- c.2 a second (foreign) namespace declaration is left alone -----------------------------------
    def w_second(model):
        p = model["p"]
        a = canon('<math xmlns="http://www.w3.org/1998/Math/MathML" xmlns:%s="http://www.w3.org/1999/xlink"><mi>x</mi></math>' % p)
        b = canon('<math xmlns="http://www.w3.org/1998/Math/MathML"><mi>x</mi></math>')
        if a == b:
            return None
        return "foreign-namespace-declaration", "declaring an unused foreign namespace prefix %r changes the result: %s" % (p, a[1][:120]), {"prefix": p, "with": a, "without": b}
    run.smt("Z-C17-c.foreign_namespace_decl_harmless",
            "(declare-const p String)\n(assert (str.in_re p (re.+ (re.range \"a\" \"z\"))))\n(assert (str.in_re (str.++ \"xmlns:\" p) %s))" % rxsmt.search_lang(pats["NAMESPACE_DECL"]),
            get=("p",), witness=w_second, claim="NAMESPACE_DECL rewrites only the declaration of the prefix that is stripped from the elements")

    # ---- c.3 how often each pre-parse regex is applied (the one piece of control flow the data-level lemmas depend on) ----------------
    # NAMESPACE_DECL must rewrite ONE declaration (the prefix that is stripped from the elements); rewriting every prefixed declaration
    # turns `xmlns:mml=".." xmlns:xlink=".."` into two default-namespace declarations.
    calls = dict(re.findall(r"(MATHJAX_V2|MATHJAX_V3|NAMESPACE_DECL|PREFIX)\s*\.\s*(replace_all|replacen|replace)\s*\(", fn.text))
    if set(calls) != {"MATHJAX_V2", "MATHJAX_V3", "NAMESPACE_DECL", "PREFIX"}:
        raise slicer.SliceError("not every pre-parse regex is applied exactly once in set_mathml: %r" % calls)
    import smt_run as _sr
    # symbolic document head with two prefixed declarations p != q; count how many the call rewrites: 1 for replace, 2 for replace_all
    n_rewritten = {"replace": 1, "replacen": 1, "replace_all": 2}[calls["NAMESPACE_DECL"]]
    q = "(declare-const p String)(declare-const q String)\n(assert (str.in_re p (re.+ (re.range \"a\" \"z\"))))(assert (str.in_re q (re.+ (re.range \"a\" \"z\"))))(assert (distinct p q))\n" \
        "(assert (str.in_re (str.++ \"xmlns:\" p) %s))(assert (str.in_re (str.++ \"xmlns:\" q) %s))\n(assert (> %d 1))" % (ns_core, ns_core, n_rewritten)

    def w_two(model):
        p, qq = model["p"], model["q"]
        a = canon('<%s:math xmlns:%s="http://www.w3.org/1998/Math/MathML" xmlns:%s="http://www.w3.org/1999/xlink"><%s:mi>x</%s:mi></%s:math>' % (p, p, qq, p, p, p))
        b = canon('<math xmlns="http://www.w3.org/1998/Math/MathML"><mi>x</mi></math>')
        if a == b:
            return None
        return ("every-prefixed-declaration-rewritten", "a prefixed document that also declares a second prefix (%s, %s) is not handled like its default-namespace spelling: %s" % (p, qq, a[1][:120]),
                {"prefixed": a, "default": b})
    run.smt("Z-C17-c.only_the_stripped_prefix_is_redeclared", q, get=("p", "q"), witness=w_two,
            claim="NAMESPACE_DECL rewrites exactly one declaration per document (method %s): two prefixed declarations do not both become the default namespace" % calls["NAMESPACE_DECL"])


def _ite_chain(pairs):
    out = ['"\\u{fffe}"']
    for k, v in reversed(pairs):
        out = ["(ite (= k %s) %s %s)" % (smt_str(k), smt_str(v), out[0])]
    return out[0]
