"""D-C03-c: the real shift/reduce parser (canonicalize_mrows_in_mrow + shift_stack + reduce_stack + reduce_stack_one_time + StackInfo) over the
model DOM, on every well-formed token row within the bound; the result tree is checked against the bracketing invariants of property C03."""
import kani_run
import prelude
import slicer
from framework import mcprobe

# extra model-DOM surface the parser needs (on top of prelude.MINIDOM)
DOM_EXTRA = r'''
pub const CHANGED_NONE: u8 = 0;
#[allow(dead_code, static_mut_refs)]
pub mod domx {
    use super::dom::*;
    pub static mut CHANGED: [u8; MAXN] = [0; MAXN];       // data-changed: 0 none, 1 "added", 2 "empty_content", 3 "data-was-mo"
    pub static mut PRIO: [u16; MAXN] = [0; MAXN];         // priority of an <mo> token (set when the token / implied operator is created)
    pub static mut FORM: [u8; MAXN] = [0; MAXN];          // 1 prefix, 2 infix, 4 postfix, 9 left fence, 12 right fence
    pub static mut ISFN: [bool; MAXN] = [false; MAXN];    // operand is a function name
    pub struct Text(pub u8);
    pub trait Appendable { fn append_to(self, parent: u8); }
    impl<'a> Appendable for Element<'a> { fn append_to(self, parent: u8) { Element { id: parent, p: core::marker::PhantomData }.append_child_id(self.id); } }
    impl Appendable for Text { fn append_to(self, parent: u8) { unsafe { TEXT[parent as usize] = self.0; } } }
    pub fn text_code(s: &str) -> u8 { let mut i = 0; while i < TEXTS2.len() { if TEXTS2[i].as_bytes() == s.as_bytes() { return i as u8; } i += 1; } 0 }
    pub const TEXTS2: [&str; 16] = ["", "a", "f", "=", "+", "\u{2218}", "-", "!", "(", ")", "\u{2061}", "\u{2062}", "\u{2063}", "\u{2064}", "/", "\u{a0}"];
}
use domx::{Text, Appendable};
impl<'a> Element<'a> {
    pub fn attributes(&self) -> () { () }
    pub fn append_child<T: Appendable>(&self, c: T) { c.append_to(self.id); }
    pub fn attribute_value(&self, nm: &str) -> Option<&'static str> {
        if nm.len() == 12 && nm.as_bytes()[5] == b'c' { match unsafe { domx::CHANGED[self.id as usize] } { 1 => Some("added"), 2 => Some("empty_content"), 3 => Some("data-was-mo"), _ => None } } else { None }
    }
    pub fn set_attr(&self, nm: &str, v: &str) { if nm.len() == 12 && nm.as_bytes()[5] == b'c' { unsafe { domx::CHANGED[self.id as usize] = if v.len() == 5 { 1 } else if v.len() == 13 { 2 } else { 3 }; } } }
    pub fn remove_attribute(&self, nm: &str) { if nm.len() == 12 && nm.as_bytes()[5] == b'c' { unsafe { domx::CHANGED[self.id as usize] = 0; } } }
}
impl<'a> Document<'a> { pub fn create_text(&self, ch: &str) -> Text { Text(domx::text_code(ch)) } }
fn as_text2<'a>(e: Element<'a>) -> &'static str { domx::TEXTS2[unsafe { dom::TEXT[e.id as usize] } as usize] }
'''

SHIM = r'''
use bitflags::bitflags;
use std::ptr::eq as ptr_eq;
pub type Result<T> = core::result::Result<T, ()>;
macro_rules! bail { ($($t:tt)*) => { return Err(()) }; }
macro_rules! debug { ($($t:tt)*) => { }; }
macro_rules! vec { ($e:expr) => { { let mut v = dom::KVec::new(); v.push($e); v } }; }
/// stands in for lazy_static's Deref wrapper: `*NAME` and `&NAME` behave as in the source
pub struct Lazy<T>(pub T);
impl<T> core::ops::Deref for Lazy<T> { type Target = T; fn deref(&self) -> &T { &self.0 } }
unsafe impl<T> Sync for Lazy<T> {}
'''

MOCKS = r'''
const INTENT_ATTR: &str = "intent";
pub struct CanonicalizeContext;
fn get_possible_embellished_node<'a>(e: Element<'a>) -> Element<'a> { e }
fn add_attrs<'a>(e: Element<'a>, _a: &()) -> Element<'a> { e }
fn set_mathml_name<'a>(e: Element<'a>, nm: &str) { unsafe { dom::KIND[e.id as usize] = if nm.len() == 2 && nm.as_bytes()[1] == b'o' { 7 } else { 5 }; } }
impl CanonicalizeContext {
    // ---- heuristics and recursion replaced by their "plain" answer -------------------------------------------------------------
    fn canonicalize_mrows<'a>(&self, e: Element<'a>) -> Result<Element<'a>> { Ok(e) }
    fn is_ok_to_merge_mrow_child(_mrow: Element) -> bool { true }
    fn find_operator<'a>(_context: Option<&CanonicalizeContext>, mo_node: Element<'a>, _previous_operator: Option<&'static OperatorInfo>,
                         _previous_node: Option<Element<'a>>, _next_node: Option<Element<'a>>) -> &'static OperatorInfo {
        // the dictionary lookup + form selection (decided separately: Z-C03-a, K-C03-b): every <mo> token has the operator it was generated with
        match unsafe { dom::TEXT[mo_node.id as usize] } { 3 => &OP_EQ, 4 => *PLUS, 5 => &OP_COMP, 6 => *PREFIX_MINUS, 7 => &OP_FACT, 8 => &OP_LPAREN, 9 => &OP_RPAREN, _ => *DEFAULT_OPERATOR_INFO_INFIX }
    }
    fn determine_vertical_bar_op<'a, 'op>(&self, original_op: &'static OperatorInfo, _mo: Element<'a>, _next: Option<Element<'a>>, _ps: &mut Vec<StackInfo<'a, 'op>>, _n: usize) -> &'static OperatorInfo { original_op }
    fn n_vertical_bars_on_right(&self, _c: &[ChildOfElement], _ch: &str) -> usize { 0 }
    fn is_function_name<'a>(&self, node: Element<'a>, _right: Option<&[ChildOfElement<'a>]>) -> FunctionNameCertainty { if unsafe { domx::ISFN[node.id as usize] } { FunctionNameCertainty::True } else { FunctionNameCertainty::False } }
    fn is_mixed_fraction<'a>(&self, _i: &Element<'a>, _f: &[ChildOfElement<'a>]) -> Result<bool> { Ok(false) }
    fn is_implied_comma<'a>(&self, _p: &Element<'a>, _c: &Element<'a>, _m: &Element<'a>) -> bool { false }
    fn is_implied_chemical_bond<'a>(&self, _p: &Element<'a>, _c: &Element<'a>) -> bool { false }
    fn is_implied_separator<'a>(&self, _p: &Element<'a>, _c: &Element<'a>) -> bool { false }
    fn is_trig_arg<'a, 'op>(&self, _p: Element<'a>, _c: Element<'a>, _ps: &mut Vec<StackInfo<'a, 'op>>) -> bool { false }
    fn potentially_lift_script<'a>(&self, mrow: Element<'a>) -> Element<'a> { mrow }
    // ---- the real parser ----------------------------------------------------------------------------------------------------------
PARSER_FNS
}
static OP_EQ: OperatorInfo = OperatorInfo { op_type: OperatorTypes::INFIX, priority: 260, next: &None };
static OP_PLUS: OperatorInfo = OperatorInfo { op_type: OperatorTypes::INFIX, priority: 280, next: &None };
static OP_MINUS: OperatorInfo = OperatorInfo { op_type: OperatorTypes::INFIX, priority: 281, next: &None };
static OP_PMINUS: OperatorInfo = OperatorInfo { op_type: OperatorTypes::PREFIX, priority: 690, next: &None };
static OP_COMP: OperatorInfo = OperatorInfo { op_type: OperatorTypes::INFIX, priority: 860, next: &None };
static OP_FACT: OperatorInfo = OperatorInfo { op_type: OperatorTypes::POSTFIX, priority: 810, next: &None };
static OP_LPAREN: OperatorInfo = OperatorInfo { op_type: OperatorTypes::LEFT_FENCE, priority: 20, next: &None };
static OP_RPAREN: OperatorInfo = OperatorInfo { op_type: OperatorTypes::RIGHT_FENCE, priority: 20, next: &None };
static OP_TIMES: OperatorInfo = OperatorInfo { op_type: OperatorTypes::INFIX, priority: 390, next: &None };
static OP_ITIMES: OperatorInfo = OperatorInfo { op_type: OperatorTypes::INFIX, priority: 390, next: &None };
static OP_APPLY: OperatorInfo = OperatorInfo { op_type: OperatorTypes::INFIX, priority: 850, next: &None };
static OP_ICOMMA: OperatorInfo = OperatorInfo { op_type: OperatorTypes::INFIX, priority: 40, next: &None };
static OP_IPLUS: OperatorInfo = OperatorInfo { op_type: OperatorTypes::INFIX, priority: 880, next: &None };
static PLUS: Lazy<&'static OperatorInfo> = Lazy(&OP_PLUS);
static MINUS: Lazy<&'static OperatorInfo> = Lazy(&OP_MINUS);
static PREFIX_MINUS: Lazy<&'static OperatorInfo> = Lazy(&OP_PMINUS);
static TIMES_SIGN: Lazy<&'static OperatorInfo> = Lazy(&OP_TIMES);
static IMPLIED_TIMES: Lazy<&'static OperatorInfo> = Lazy(&OP_ITIMES);
static INVISIBLE_FUNCTION_APPLICATION: Lazy<&'static OperatorInfo> = Lazy(&OP_APPLY);
static IMPLIED_INVISIBLE_COMMA: Lazy<&'static OperatorInfo> = Lazy(&OP_ICOMMA);
static IMPLIED_INVISIBLE_PLUS: Lazy<&'static OperatorInfo> = Lazy(&OP_IPLUS);
LITERAL_STATICS
'''

HARNESS = r'''
// token kinds of the generated rows: 0 operand a, 1 operand f (a function name), 2 '=', 3 '+', 4 '∘' (binds tighter than function application),
// 5 prefix '-', 6 postfix '!', 7 '(', 8 ')'
fn make_token(kind: usize) -> Element<'static> {
    let (dk, text, prio, form, isfn) = match kind {
        0 => (0u8, 1u8, 0u16, 0u8, false), 1 => (0, 2, 0, 0, true), 2 => (7, 3, 260, 2, false), 3 => (7, 4, 280, 2, false), 4 => (7, 5, 860, 2, false),
        5 => (7, 6, 690, 1, false), 6 => (7, 7, 810, 4, false), 7 => (7, 8, 20, 9, false), _ => (7, 9, 20, 12, false) };
    let e = dom::new_node(dk);
    unsafe { dom::TEXT[e.id as usize] = text; domx::PRIO[e.id as usize] = prio; domx::FORM[e.id as usize] = form; domx::ISFN[e.id as usize] = isfn; }
    e
}
/// E := P (infix P)*      P := prefix? primary postfix?      primary := operand | operand? '(' operand (infix operand)? ')'
fn wellformed(k: &[usize; NTOK], n: usize) -> bool {
    let mut i = 0;
    loop {
        if i < n && k[i] == 5 { i += 1; }
        if i >= n { return false; }
        if k[i] <= 1 { i += 1; if i < n && k[i] == 7 { // operand followed by '('
                i += 1; if i >= n || k[i] > 1 { return false; } i += 1;
                if i < n && k[i] >= 2 && k[i] <= 4 { i += 1; if i >= n || k[i] > 1 { return false; } i += 1; }
                if i >= n || k[i] != 8 { return false; } i += 1; } }
        else if k[i] == 7 { i += 1; if i >= n || k[i] > 1 { return false; } i += 1;
                if i < n && k[i] >= 2 && k[i] <= 4 { i += 1; if i >= n || k[i] > 1 { return false; } i += 1; }
                if i >= n || k[i] != 8 { return false; } i += 1; }
        else { return false; }
        if i < n && k[i] == 6 { i += 1; }
        if i == n { return true; }
        if !(k[i] >= 2 && k[i] <= 4) { return false; }
        i += 1;
    }
}
fn is_mo(e: Element) -> bool { name(&e).len() == 2 && name(&e).as_bytes()[1] == b'o' }
fn prio_of(e: Element) -> u16 {
    // priority of an <mo>: from the token table, or (operators the parser inserted) from their text
    let p = unsafe { domx::PRIO[e.id as usize] };
    if p != 0 { p } else { match unsafe { dom::TEXT[e.id as usize] } { 10 => 850, 11 => 390, 12 => 40, 13 => 880, _ => 0 } }
}
fn form_of(e: Element) -> u8 { let f = unsafe { domx::FORM[e.id as usize] }; if f != 0 { f } else { 2 } }
/// principal operator of a row: (priority, form) of its first infix operator, else of its prefix/postfix operator; fenced rows / leaves: none
fn principal(e: Element) -> Option<(u16, u8)> {
    if name(&e).len() != 4 { return None; }               // not an mrow
    let ch = e.children();
    if ch.len() > 0 && is_mo(as_element(ch[0])) && form_of(as_element(ch[0])) == 9 { return None; }      // ( ... )
    let mut j = 0; let mut found: Option<(u16, u8)> = None;
    while j < ch.len() { let c = as_element(ch[j]); if is_mo(c) { let f = form_of(c); if f == 2 { return Some((prio_of(c), 2)); } if found.is_none() { found = Some((prio_of(c), f)); } } j += 1; }
    found
}
static mut LEAVES: [u8; 16] = [0; 16];
static mut NLEAVES: usize = 0;
/// checks the C03 invariants on one row and recurses (bounded depth)
fn check_row(e: Element, depth: usize) {
    if name(&e).len() != 4 { unsafe { LEAVES[NLEAVES] = dom::TEXT[e.id as usize]; NLEAVES += 1; } return; }
    assert!(depth < 6, "result nested deeper than the bound");
    let ch = e.children();
    let n = ch.len();
    assert!(n >= 2, "a row with fewer than two children is left in the result");
    let me = principal(e);
    let fenced = is_mo(as_element(ch[0])) && form_of(as_element(ch[0])) == 9;
    if fenced { assert!(n <= 3 && is_mo(as_element(ch[n - 1])) && form_of(as_element(ch[n - 1])) == 12, "a left fence does not enclose exactly its contents up to the matching right fence"); }
    let mut j = 0; let mut prev_operand = false; let mut row_prio: u16 = 0;
    while j < n {
        let c = as_element(ch[j]);
        if is_mo(c) {
            let f = form_of(c);
            if f == 2 { if row_prio == 0 { row_prio = prio_of(c); } assert!(prio_of(c) == row_prio, "operators of different precedence sit side by side in one row"); }
            prev_operand = f == 4 || f == 12;      // after a postfix operator / right fence we have an operand on the left
        } else {
            assert!(!prev_operand, "two operands are adjacent without an (invisible) operator between them");
            prev_operand = true;
            if let (Some((pc, fc)), Some((pr, fr))) = (principal(c), me) {
                if (fc == 2 || fc == 4) && (fr == 2 || fr == 4 || fr == 1) { assert!(pc >= pr, "a nested row binds less tightly than the operator of the row that contains it"); }
            }
        }
        check_row(c, depth + 1);
        j += 1;
    }
}

// D-C03-c: every well-formed row of <= NTOK tokens is bracketed by the real parser so that the C03 invariants hold and no token is lost
HARNESS(parser_brackets_by_precedence, UNW) {
    let n = 1 + sym::below(NTOK);
    let mut kinds = [0usize; NTOK];
    let row = dom::new_node(5);
    let mut i = 0;
    while i < NTOK { if i < n { kinds[i] = sym::below(9); } i += 1; }
    sym::assume(wellformed(&kinds, n));
    i = 0;
    while i < n { let t = make_token(kinds[i]); row.append_child_id(t.id); i += 1; }
    cover!(n == NTOK, "longest row reachable");
    cover!(n >= 4 && kinds[0] == 1 && kinds[1] == 7, "function application reachable");
    let ctx = CanonicalizeContext;
    let r = ctx.canonicalize_mrows_in_mrow(row).unwrap();          // no panic, no error
    unsafe { NLEAVES = 0; }
    check_row(r, 0);
    // leaves in order = the input tokens, plus invisible operators only
    let mut a = 0; let mut b = 0;
    let nl = unsafe { NLEAVES };
    while b < nl {
        let t = unsafe { LEAVES[b] };
        if t >= 10 && t <= 13 { b += 1; continue; }
        assert!(a < n && t as usize == [1usize, 2, 3, 4, 5, 6, 7, 8, 9][kinds[a]], "tokens were lost, invented or reordered by the parser");
        a += 1; b += 1;
    }
    assert!(a == n, "tokens were lost by the parser");
}
'''


def api_parser(vals=None, out=None):
    """role-level recipe: f ∘ g ( x + y ): the row [f ∘ g] must be the operand of the function application, not the other way round."""
    import re
    res = mcprobe([("mathml", "<math><mi>f</mi><mo>&#x2218;</mo><mi>g</mi><mo>(</mo><mi>x</mi><mo>+</mo><mi>y</mi><mo>)</mo></math>")])
    if res[0][0] != "OK":
        return True, {"result": res[0]}
    flat = re.sub(r"\s+|<math[^>]*>|</math>| id='[^']*'| data-[a-z-]+='[^']*'", "", res[0][1])
    # expected shape: <mrow><mrow>f∘g</mrow>⁡<mrow>(…)</mrow></mrow>
    ok = flat.startswith("<mrow><mrow><mi>f</mi><mo>∘</mo><mi>g</mi></mrow><mo>&#x2061;</mo>")
    return not ok, {"script": "set_mathml(f ∘ g ( x + y )): the composition must be the operand of the function application", "canonical": flat[:300]}


def lemma(run, ntok=None):
    c = slicer.Source.get("src/canonicalize.rs")
    ntok = ntok or (5 if run.tier == "quick" else 6)
    items = [c.find("const CHANGED_ATTR"), c.find("const ADDED_ATTR_VALUE"), c.find("struct OperatorInfo"), c.find("macro bitflags"), c.find("struct OperatorPair"),
             c.find("impl OperatorPair"), c.find("impl OperatorInfo"), c.find("struct StackInfo"), c.find("impl StackInfo"), c.find("enum FunctionNameCertainty"),
             c.find("fn top"), c.find("fn create_mo")]
    ctx = c.find("impl CanonicalizeContext")
    fns = [ctx.find("fn shift_stack"), ctx.find("fn reduce_stack"), ctx.find("fn reduce_stack_one_time"), ctx.find("fn canonicalize_mrows_in_mrow")]
    ls = c.find("macro lazy_static")
    lits = []
    for n in ("LEFT_FENCEPOST", "IMPLIED_TIMES_HIGH_PRIORITY", "IMPLIED_SEPARATOR_HIGH_PRIORITY", "IMPLIED_CHEMICAL_BOND", "IMPLIED_PLUS_SLASH_HIGH_PRIORITY",
              "DEFAULT_OPERATOR_INFO_PREFIX", "DEFAULT_OPERATOR_INFO_INFIX", "DEFAULT_OPERATOR_INFO_POSTFIX", "ILLEGAL_OPERATOR_INFO"):
        sp = ls.find("static ref " + n)
        run.uses(sp)
        import re
        m = re.match(r"static ref (\w+)\s*:\s*(.*?)\s*=\s*(.*);\s*$", sp.text.strip(), re.S)
        if not m:
            raise slicer.SliceError("cannot parse lazy static " + n)
        lits.append("static %s: Lazy<%s> = Lazy(%s);" % (m.group(1), m.group(2), m.group(3)))
    run.uses(*items, *fns)
    body = prelude.MINIDOM + DOM_EXTRA + SHIM + "\n".join(i.text for i in items) + \
        MOCKS.replace("PARSER_FNS", "\n".join(f.text for f in fns)).replace("LITERAL_STATICS", "\n".join(lits)) + \
        HARNESS.replace("NTOK", str(ntok)).replace("UNW", str(2 * ntok + 6))
    body = body.replace("#[derive(Clone, Debug)]\nstruct OperatorInfo", "#[derive(Clone)]\nstruct OperatorInfo") \
        .replace("#[derive(Clone, Debug)]\nstruct OperatorPair", "#[derive(Clone)]\nstruct OperatorPair")
    # the model DOM spells two methods differently
    body = body.replace(".set_attribute_value(CHANGED_ATTR", ".set_attr(CHANGED_ATTR").replace("as_text(base_of_child)", "as_text2(base_of_child)")
    crate = kani_run.Crate("c03parser", body, deps={"bitflags": '"2.5"'})
    run.bound("D-C03-c", "every well-formed row of 1..%d tokens over {a, f (function name), =, +, ∘ (priority 860), prefix -, postfix !, ( , )} with at most one-level parentheses (model DOM)" % ntok)
    run.assume("sxd_document replaced by the model DOM (MINIDOM + parser extras); dictionary lookup / form selection replaced by a fixed operator per token text (decided separately by Z-C03-a / K-C03-b); "
               "heuristics replaced by their plain answer: is_function_name = a flag of the token, is_mixed_fraction / implied comma / chemical bond / separator / trig argument = no, "
               "vertical bars = none, potentially_lift_script / add_attrs / canonicalize_mrows of leaves = identity; std Vec replaced by the fixed-capacity vector")
    return crate, dict(id="D-C03-c.parser_brackets_by_precedence", harness="parser_brackets_by_precedence", api=lambda v, o: api_parser(),
                       role=lambda v, o: "mis-bracketing", covers=["longest row reachable", "function application reachable"],
                       claim="no panic/error; rows hold one precedence class, nested infix/postfix rows bind at least as tightly as their container, fences enclose their contents, "
                             "no adjacent operands, tokens kept in order")
