"""C12 — Preferences read back as set; bad settings are rejected (DESIGN.md §3 C12).
Engine K: the setter/getter kernel (PreferenceManager::set_string_pref / set_api_float_pref / set_api_boolean_pref /
pref_to_string and the dispatch statements of interface::set_preference, sliced verbatim) over a symbolic
(name, value, stored kind) triple; the preference map is an association list, file-system effects are stubbed."""
import kani_run
import prelude
import slicer
import tables
from framework import mcprobe
from smt_run import smt_str

SHIM = r'''
pub type Result<T> = core::result::Result<T, Error>;
#[derive(Debug)] pub struct Error;
macro_rules! bail { ($($t:tt)*) => { return Err(Error) }; }
macro_rules! warn { ($($t:tt)*) => { }; }
macro_rules! debug { ($($t:tt)*) => { }; }

/// the four scalar kinds of yaml_rust::Yaml that preferences use (same accessor behaviour as the real enum)
#[derive(Clone, Debug, PartialEq)]
pub enum Yaml { Real(String), Integer(i64), String(String), Boolean(bool), BadValue }
impl Yaml {
    pub fn as_str(&self) -> Option<&str> { match self { Yaml::String(s) => Some(s), _ => None } }
    pub fn as_bool(&self) -> Option<bool> { match self { Yaml::Boolean(b) => Some(*b), _ => None } }
}

/// association-list stand-in for HashMap<String, Yaml> (fixed capacity).  Keys are compared through (length, first byte),
/// which is injective on the preference names this crate uses (asserted in the harness); string-keyed memcmp's made CBMC explode.
pub const NSLOT: usize = 4;
fn kid(k: &str) -> u16 { ((k.len() as u16) << 8) | (k.as_bytes()[0] as u16) }
#[derive(Clone, Debug)]
pub struct PreferenceHashMap { slots: [Option<(u16, Yaml)>; NSLOT] }
impl PreferenceHashMap {
    pub fn new() -> Self { PreferenceHashMap { slots: [None, None, None, None] } }
    pub fn get(&self, k: &str) -> Option<&Yaml> {
        let id = kid(k);
        let mut i = 0;
        while i < NSLOT { if let Some((kk, v)) = &self.slots[i] { if *kk == id { return Some(v); } } i += 1; }
        None
    }
    pub fn insert(&mut self, k: String, v: Yaml) -> Option<Yaml> {
        let id = kid(&k);
        core::mem::forget(k);
        let mut i = 0;
        while i < NSLOT { if let Some((kk, old)) = &mut self.slots[i] { if *kk == id { return Some(core::mem::replace(old, v)); } } i += 1; }
        i = 0;
        while i < NSLOT { if self.slots[i].is_none() { self.slots[i] = Some((id, v)); return None; } i += 1; }
        sym::assume(false); None
    }
}
#[derive(Clone, Debug)]
pub struct Preferences { prefs: PreferenceHashMap }
pub struct PreferenceManager { error: String, api_prefs: Preferences, user_prefs: Preferences, files_reset: usize }
impl PreferenceManager {
    // file-system side of a preference change: stubbed (nondeterministic success)
    fn reset_files_from_preference_change(&mut self, _changed_pref: &str, _changed_value: &str) -> Result<()> {
        self.files_reset += 1;
        if sym::bool() { Ok(()) } else { Err(Error) }
    }
    fn set_separators(&mut self, _language_country: &str) -> Result<()> { Ok(()) }
}
fn to_float(_name: &str, value: &str) -> Result<f64> { if value.as_bytes() == b"1.5" { Ok(1.5) } else { Err(Error) } }
#[cfg(kani)]
fn lower_ascii(s: &str) -> String { let mut o = String::with_capacity(s.len()); for b in s.bytes() { o.push(b.to_ascii_lowercase() as char); } o }
'''

HARNESS = r'''
fn yaml_of_kind(k: usize) -> Yaml { match k { 0 => Yaml::String("Medium".to_string()), 1 => Yaml::Boolean(true), _ => Yaml::Real("180.0".to_string()) } }
fn manager(present: bool, kind: usize, place: usize, kind2: usize) -> PreferenceManager {
    let mut pm = PreferenceManager { error: String::new(), api_prefs: Preferences { prefs: PreferenceHashMap::new() }, user_prefs: Preferences { prefs: PreferenceHashMap::new() }, files_reset: 0 };
    pm.user_prefs.prefs.insert("DecimalSeparator".to_string(), Yaml::String("Auto".to_string()));
    pm.user_prefs.prefs.insert("Language".to_string(), Yaml::String("en".to_string()));
    // place: 0 = API map, 1 = user map, 2 = BOTH maps (an API preference that was also written to the user map, e.g. by an earlier set to its current value)
    if present && place != 1 { pm.api_prefs.prefs.insert("Verbosity".to_string(), yaml_of_kind(kind)); }
    if present && place != 0 { pm.user_prefs.prefs.insert("Verbosity".to_string(), yaml_of_kind(if place == 2 { kind2 } else { kind })); }
    pm
}
/// what get_preference reads: the look-up statements of pref_to_string, verbatim
impl PreferenceManager { fn looked_up(&self, name: &str) -> Option<&Yaml> { LOOKUP_STMTS value } }
fn stored<'a>(pm: &'a PreferenceManager) -> Option<&'a Yaml> { pm.looked_up("Verbosity") }
fn kind_of(y: Option<&Yaml>) -> u8 { match y { None => 9, Some(Yaml::String(s)) => if s.as_bytes() == b"Terse" { 10 } else { 0 }, Some(Yaml::Boolean(_)) => 1, Some(_) => 2 } }

// K-C12-a.1: set_string_pref from ANY stored state: the preference may be absent or hold any scalar kind, in either map
HARNESS(set_string_pref_total, 9) {
    let present = sym::bool();
    let kind = sym::below(3);
    let place = sym::below(3);
    let kind2 = sym::below(3);
    let mut pm = manager(present, kind, place, kind2);
    cover!(present && place == 2, "preference present in both maps reachable");
    assert!(kid("Verbosity") != kid("DecimalSeparator") && kid("Verbosity") != kid("Language") && kid("Language") != kid("DecimalSeparator"), "key model not injective");
    let before = kind_of(stored(&pm));
    let r = pm.set_string_pref("Verbosity", "Terse");          // must not panic, whatever kind is stored
    let after = kind_of(stored(&pm));
    cover!(r.is_ok() && present && kind == 0, "string preference set reachable");
    cover!(r.is_err() && present, "file-change failure reachable");
    cover!(present && kind == 1, "string preference holding a boolean reachable");
    match r {
        Ok(()) => { assert!(present, "an unknown preference name was accepted");
                    assert!(after == 10, "an accepted preference does not read back with the value that was set"); }
        Err(_) => assert!(after == before, "a rejected request changed the preference"),
    }
    core::mem::forget(pm);
}

// ---- dispatch statements of interface::set_preference, verbatim, over a manager that records which setter is called ---------
pub struct Recorder { kind: u8, is_true: bool, calls: u8, stored_kind: u8, known: bool }
impl Recorder {
    fn set_api_boolean_pref(&mut self, _key: &str, value: bool) { self.kind = 1; self.is_true = value; self.calls += 1; }
    fn set_api_float_pref(&mut self, _key: &str, _value: f64) { self.kind = 2; self.calls += 1; }
    fn set_string_pref(&mut self, _key: &str, _value: &str) -> Result<()> { self.kind = 0; self.calls += 1; Ok(()) }
}
fn dispatch(pref_manager: &mut Recorder, name: String, value: String) -> Result<()> {
    LOWER_STMT
    DISPATCH_EXPR;
    return Ok(());
}
const EXCL_UNKNOWN_NAME: bool = false;
const EXCL_WRONG_KIND: bool = false;

// K-C12-a.2: which setter a (name, value) pair reaches; a setter that does not check the name / the kind must only be
//            reached for a known name whose preference has that kind
HARNESS(dispatch_routes_by_kind, 9, [str::to_lowercase => lower_ascii]) {
    let ni = sym::below(4);       // Verbosity: string preference, Blind: boolean, Rate: number, NoSuch: unknown
    let vi = sym::below(4);
    if EXCL_UNKNOWN_NAME { sym::assume(ni != 3); }
    let pref_kind: u8 = match ni { 0 => 0, 1 => 1, 2 => 2, _ => 9 };
    let value_kind: u8 = match vi { 0 | 3 => 1, 2 => 2, _ => 0 };
    if EXCL_WRONG_KIND { sym::assume(!(value_kind == 1 && pref_kind != 1 && ni != 3)); }    // role: boolean-looking value for a non-boolean preference
    let mut rec = Recorder { kind: 99, is_true: false, calls: 0, stored_kind: pref_kind, known: ni != 3 };
    let r = match (ni, vi) {
        (0, 0) => dispatch(&mut rec, "Verbosity".to_string(), "true".to_string()), (0, 1) => dispatch(&mut rec, "Verbosity".to_string(), "Terse".to_string()),
        (0, 2) => dispatch(&mut rec, "Verbosity".to_string(), "1.5".to_string()), (0, _) => dispatch(&mut rec, "Verbosity".to_string(), "False".to_string()),
        (1, 0) => dispatch(&mut rec, "Blind".to_string(), "true".to_string()), (1, 1) => dispatch(&mut rec, "Blind".to_string(), "Terse".to_string()),
        (1, 2) => dispatch(&mut rec, "Blind".to_string(), "1.5".to_string()), (1, _) => dispatch(&mut rec, "Blind".to_string(), "False".to_string()),
        (2, 0) => dispatch(&mut rec, "Rate".to_string(), "true".to_string()), (2, 1) => dispatch(&mut rec, "Rate".to_string(), "Terse".to_string()),
        (2, 2) => dispatch(&mut rec, "Rate".to_string(), "1.5".to_string()), (2, _) => dispatch(&mut rec, "Rate".to_string(), "False".to_string()),
        (_, 0) => dispatch(&mut rec, "NoSuch".to_string(), "true".to_string()), (_, 1) => dispatch(&mut rec, "NoSuch".to_string(), "Terse".to_string()),
        (_, 2) => dispatch(&mut rec, "NoSuch".to_string(), "1.5".to_string()), (_, _) => dispatch(&mut rec, "NoSuch".to_string(), "False".to_string()),
    };
    cover!(rec.kind == 1 && !rec.is_true, "False reaches the boolean setter");
    cover!(rec.kind == 2, "number reaches the float setter");
    cover!(r.is_err(), "rejection reachable");
    assert!(rec.calls <= 1, "more than one setter called");
    if r.is_ok() {
        assert!(rec.calls == 1, "accepted without storing anything");
        if rec.kind == 1 { assert!(rec.is_true == (vi == 0), "boolean value normalised wrongly"); }
        // set_api_boolean_pref / set_api_float_pref insert unconditionally (checked by reading them: they have no lookup), so the
        // dispatch is the only place where an unknown name or a wrong kind could be rejected:
        if rec.kind != 0 {
            assert!(rec.known, "a request naming an unknown preference reaches a setter that does not check the name");
            assert!(rec.kind == rec.stored_kind, "a value of the wrong kind reaches a setter that does not check the kind");
        }
    } else {
        assert!(rec.calls == 0, "rejected after a setter was called");
    }
}
'''


LANG_HARNESS = r'''
fn normalise(name: String, value: String) -> Result<String> {
    let mut value = value;
    LANG_BLOCK
    Ok(value)
}
// K-C12-c: the documented normalisation of language tags: only the first two '-'-separated parts are kept; a first part that is not
// two letters is rejected; "Auto" is kept for Language and rejected for LanguageAuto
fn check(is_language_auto: bool, value: &str, want: Option<&[u8]>) {
    let r = if is_language_auto { normalise("LanguageAuto".to_string(), value.to_string()) } else { normalise("Language".to_string(), value.to_string()) };
    match (r, want) {
        (Ok(v), Some(w)) => { assert!(v.as_bytes() == w, "language tag is not normalised to language[-country]"); core::mem::forget(v); }
        (Ok(v), None) => { assert!(false, "an ill-formed language tag (or LanguageAuto=Auto) was accepted"); core::mem::forget(v); }
        (Err(_), Some(_)) => assert!(false, "a well-formed language tag was rejected"),
        (Err(_), None) => {}
    }
}
CASES
'''


def api_panic(vals=None, out=None):
    res = mcprobe([("pref", "Verbosity true"), ("pref", "Verbosity Terse"), ("getpref", "Verbosity"), ("pref", "Blind yes"), ("pref", "Bookmark abc")])
    bad = [r for r in res if r[0] not in ("OK", "ERR")]
    return bool(bad), {"script": "set_preference(Verbosity,true); (Verbosity,Terse); (Blind,yes); (Bookmark,abc)", "results": res}


def api_unknown(vals=None, out=None):
    res = mcprobe([("pref", "NoSuchPreference true"), ("getpref", "NoSuchPreference")])
    return res[0][0] == "OK", {"script": "set_preference(NoSuchPreference,true)", "results": res}


def api_wrong_kind(vals=None, out=None):
    res = mcprobe([("pref", "Rate true"), ("getpref", "Rate"), ("pref", "Verbosity false"), ("getpref", "Verbosity")])
    return res[0][0] == "OK" or res[2][0] == "OK", {"script": "set_preference(Rate,true); set_preference(Verbosity,false)", "results": res}



# ======================================================================================================================
# K-C12-d: get_preference reads back exactly what pref_to_string holds for that name (no substitution by another preference's value)
GET_SHIM = r"""
pub type Result<T> = core::result::Result<T, Error>;
#[derive(Debug)] pub struct Error;
macro_rules! bail { ($($t:tt)*) => { return Err(Error) }; }
pub struct RC<T>(T);
impl<T> RC<T> { fn borrow(&self) -> &T { &self.0 } }
pub struct Rules { pref_manager: RC<PreferenceManager> }
/// what the preference manager holds: Language, LanguageAuto, Rate; every other name is unknown
pub struct PreferenceManager { lang: &'static str, lang_auto: &'static str }
impl PreferenceManager {
    fn pref_to_string(&self, name: &str) -> String {
        if name == "Language" { self.lang.to_string() } else if name == "LanguageAuto" { self.lang_auto.to_string() }
        else if name == "Rate" { "180".to_string() } else { NO_PREFERENCE.to_string() }
    }
}
fn get_preference_body(rules: &RC<Rules>, name: String) -> Result<String> {
    return (|rules: &RC<Rules>| CLOSURE_BLOCK)(rules);
}
fn case(name: &'static str, lang: &'static str, lang_auto: &'static str) -> u8 {
    let rules = RC(Rules { pref_manager: RC(PreferenceManager { lang, lang_auto }) });
    let want = rules.0.pref_manager.0.pref_to_string(name);
    let r = get_preference_body(&rules, name.to_string());
    let code = match &r { Ok(v) => if want.as_str() == NO_PREFERENCE { 1 } else if v.as_str() == want.as_str() { 0 } else { 2 }, Err(_) => if want.as_str() == NO_PREFERENCE { 0 } else { 3 } };
    core::mem::forget(r); core::mem::forget(want);
    code
}
HARNESS(get_preference_reads_back_the_stored_value, 15) {
    const NAMES: [&str; 4] = ["Language", "LanguageAuto", "Rate", "NoSuch"];
    const LANGS: [&str; 3] = ["Auto", "en", "es-mx"];
    const AUTOS: [&str; 2] = ["", "es"];
    let k = sym::below(24);
    let code = match k {
CASE_ARMS
        _ => 0,
    };
    cover!(k == 1, "Language=Auto with LanguageAuto=es reachable");
    cover!(k >= 18, "unknown name reachable");
    assert!(code != 1, "get_preference returns a value for an unknown preference");
    assert!(code != 2, "get_preference does not read back the stored value of the preference");
    assert!(code != 3, "get_preference fails for a stored preference");
}
"""


def api_get(vals=None, out=None):
    res = mcprobe([("pref", "Language Auto"), ("pref", "LanguageAuto es"), ("getpref", "Language"), ("getpref", "NoSuchPreferenceName")])
    bad = res[2] != ("OK", "Auto") or res[3][0] != "ERR"
    return bad, {"script": "set_preference(Language, Auto); set_preference(LanguageAuto, es); get_preference(Language) must read back Auto; get_preference(unknown) must be an error", "results": res}


def get_lemma(run):
    prefs = slicer.Source.get("src/prefs.rs")
    itf = slicer.Source.get("src/interface.rs")
    gp = itf.find("fn get_preference")
    blk = itf.find_bracketed("SPEECH_RULES . with ( | rules | {", within=gp)[0]
    text = blk.text
    block = text[text.index("{"):]
    block = block[:block.rindex("}") + 1]
    run.uses(slicer.Span(itf, blk.start, blk.end, "interface.rs::get_preference::closure"), prefs.find("static NO_PREFERENCE"))
    arms = []
    k = 0
    for n in range(4):
        for l in range(3):
            for a in range(2):
                arms.append("        %d => case(NAMES[%d], LANGS[%d], AUTOS[%d])," % (k, n, l, a))
                k += 1
    body = prefs.find("static NO_PREFERENCE").text + GET_SHIM.replace("CLOSURE_BLOCK", block).replace("CASE_ARMS", "\n".join(arms))
    crate = kani_run.Crate("c12get", body)
    run.bound("K-C12-d", "the closure body of get_preference verbatim; name in {Language, LanguageAuto, Rate, NoSuch} x stored Language in {Auto, en, es-mx} x stored LanguageAuto in {'', es} (24 solver-selected cases, each on literals)")
    run.assume("K-C12-d: SPEECH_RULES / RefCell borrows replaced by plain references; PreferenceManager::pref_to_string by a three-entry table (its look-up statements are K-C12-a's subject); error text (bail!) not built")
    return crate, dict(id="K-C12-d.get_preference_reads_back", harness="get_preference_reads_back_the_stored_value", api=lambda v, o: api_get(),
                       role=lambda v, o: "read-back-substituted" if "does not read back" in o else ("unknown-name-has-value" if "unknown preference" in o else "stored-preference-fails"),
                       covers=["Language=Auto with LanguageAuto=es reachable", "unknown name reachable"],
                       claim="get_preference(name) = Ok(pref_to_string(name)) for a stored name, Err for an unknown one -- whatever the other preferences hold")


def kernel(run, crate_name):
    """-> (crate, lemmas) of the setter kernel; also used by C08 (panic freedom of set_preference)."""
    return _build(run, crate_name, only_kernel=True)


def build(run):
    return _build(run, "c12prefs")


def _build(run, crate_name, only_kernel=False):
    run.outside += ["persistence across set_mathml and effects on outputs (whole session)", "prefs.yaml re-reading, file selection (file system)",
                    ]
    prefs = slicer.Source.get("src/prefs.rs")
    itf = slicer.Source.get("src/interface.rs")
    imp = prefs.find("impl PreferenceManager")
    meths = [imp.find("fn set_string_pref"), imp.find("fn set_api_float_pref"), imp.find("fn set_api_boolean_pref"), imp.find("fn pref_to_string")]
    consts = [prefs.find("static NO_PREFERENCE")]
    sp = itf.find("fn set_preference")
    lower = sp.find_stmt("let lower_case_value =")
    dispatch = sp.find_expr('if lower_case_value == "true" || lower_case_value == "false"')
    pts = imp.find("fn pref_to_string")
    look1 = pts.find_stmt("let mut value =")
    look2 = prefs.find_expr("if value . is_none ( )", within=pts)
    run.uses(*meths, *consts, lower, dispatch, look1, look2)
    dl = "static DEFAULT_LANG: Yaml = Yaml::String(String::new());\n"
    body = prelude.STR_STUBS + SHIM + dl + "\n".join(c.text for c in consts) + "\nimpl PreferenceManager {\n" + "\n".join(m.text for m in meths) + "\n}\n" + \
        HARNESS.replace("LOOKUP_STMTS", look1.text + "\n" + look2.text + "\n").replace("LOWER_STMT", lower.text).replace("DISPATCH_EXPR", dispatch.text)
    crate = kani_run.Crate(crate_name, body)
    run.bound("K-C12-a", "set_string_pref: the preference absent or holding ANY scalar kind (string / boolean / number) in the API map, the user map or both (independent kinds); read back through the look-up statements of pref_to_string; "
              "dispatch: name in {Verbosity (string), Blind (boolean), Rate (number), NoSuch} x value in {true, False, Terse, 1.5}")
    run.assume("HashMap<String,Yaml> replaced by a 4-slot association list keyed by (length, first byte) of the name, injective on the six names used; yaml_rust::Yaml by an enum with the same four scalar kinds and as_str/as_bool",
               "reset_files_from_preference_change / set_separators stubbed (nondeterministic success / Ok); to_float replaced by a table for the sample values; str::to_lowercase stubbed by ASCII lowering (values are ASCII)",
               "error messages (bail!) not built")

    def role(vals, out):
        if "unknown preference" in out:
            return "unknown-name-accepted"
        if "wrong kind" in out:
            return "wrong-kind-accepted"
        if "does not read back" in out:
            return "read-back-differs"
        if "rejected request changed" in out:
            return "rejected-request-changed-state"
        if "REPLAY-PANIC" in out and "unwrap" in out:
            return "panic-on-non-string-stored-value"
        return "other"

    def api(vals, out):
        r = role(vals, out)
        if r == "unknown-name-accepted":
            return api_unknown()
        if r == "wrong-kind-accepted":
            return api_wrong_kind()
        if r == "panic-on-non-string-stored-value":
            return api_panic()
        return True, "no API recipe for role " + r
    lemmas = [
        dict(id="K-C12-a.set_string_pref", harness="set_string_pref_total", role=role, api=api,
             covers=["string preference set reachable", "file-change failure reachable", "string preference holding a boolean reachable", "preference present in both maps reachable"],
             claim="set_string_pref from any stored kind: no panic; Ok => known name and the new value is stored; Err => nothing changed"),
        dict(id="K-C12-a.dispatch", harness="dispatch_routes_by_kind", role=role, api=api,
             covers=["False reaches the boolean setter", "number reaches the float setter", "rejection reachable"],
             exclusions={"unknown-name-accepted": "UNKNOWN_NAME", "wrong-kind-accepted": "WRONG_KIND"},
             claim="the dispatch of set_preference calls exactly one setter, normalises booleans, and reaches the unchecked boolean/float setters only for a known name of that kind"),
    ]
    if only_kernel:
        return crate, lemmas
    run.kani(crate, lemmas, timeout=900)
    crate_g, lemma_g = get_lemma(run)
    run.kani(crate_g, [lemma_g], timeout=600)

    # ---- K-C12-c: normalisation of Language / LanguageAuto values (the block of set_preference before the kernel) ------------------
    lang_block = sp.find_expr('if name == "Language" || name == "LanguageAuto"')
    run.uses(lang_block)
    cases = [("auto", "Auto", 'if la { None } else { Some(b"Auto") }'), ("one_letter", "e-us", "None"), ("three_parts", "en-us-ny", 'Some(b"en-us")'),
             ("plain", "en", 'Some(b"en")'), ("numeric_region", "es-419", 'Some(b"es-419")'), ("three_letters", "eng", "None")]
    case_text = "\n".join('HARNESS(language_tag_%s, 14) {\n    let la = sym::bool();\n    cover!(la, "LanguageAuto reachable");\n    check(la, "%s", %s);\n}' % c for c in cases)
    crate_l = kani_run.Crate("c12lang", "pub type Result<T> = core::result::Result<T, ()>;\nmacro_rules! bail { ($($t:tt)*) => { return Err(()) }; }\n" +
                             LANG_HARNESS.replace("LANG_BLOCK", lang_block.text).replace("CASES", case_text))
    run.bound("K-C12-c", "Language / LanguageAuto x value in {Auto, e-us, en-us-ny, en, es-419, eng}: one harness per value (every path on literals), the preference name symbolic")

    def api_lang(vals, out):
        res = mcprobe([("pref", "Language en-us-nyc"), ("getpref", "Language"), ("pref", "Language e"), ("pref", "LanguageAuto Auto")])
        bad = res[1] != ("OK", "en-us") or res[2][0] != "ERR" or res[3][0] != "ERR"
        return bad, {"script": "set_preference(Language, en-us-nyc); get_preference(Language); (Language, e); (LanguageAuto, Auto)", "results": res}
    run.kani(crate_l, [dict(id="K-C12-c.language_tag." + c[0], harness="language_tag_" + c[0], api=api_lang, role=lambda v, o: "language-normalisation",
                            covers=["LanguageAuto reachable"],
                            claim="the Language block maps %r to %s (kept: language[-country]; rejected: language part not two letters, LanguageAuto=Auto)" % (c[1], c[2])) for c in cases], timeout=600)
