"""C18 — mathvariant maps characters to the right Unicode math letters (DESIGN.md §3 C18).
Engine K on the *compiled* per-character kernel of canonicalize_plane1::shift_text: the `match SHIFT_AMOUNTS.get(&ch)`
expression of the loop body is cut out verbatim (statement-level slice) together with MATH_VARIANTS, SHIFT_AMOUNTS,
Offsets, shift_char and EXCEPTIONS; variant and char are symbolic; the oracle is generated from the Unicode Character
Database (python unicodedata) at check time."""
import re
import unicodedata

import kani_run
import prelude
import slicer
from framework import mcprobe

VARIANTS = [  # (mathvariant value, UCD style for Latin, UCD style for digits or None, UCD style for Greek or None)
    ("italic", None, None, "MATHEMATICAL ITALIC"),            # plain italic Latin letters are left as they are
    ("bold", "MATHEMATICAL BOLD", "MATHEMATICAL BOLD", "MATHEMATICAL BOLD"),
    ("bold-italic", "MATHEMATICAL BOLD ITALIC", "MATHEMATICAL BOLD", "MATHEMATICAL BOLD ITALIC"),   # upright digits for italic styles
    ("double-struck", "MATHEMATICAL DOUBLE-STRUCK", "MATHEMATICAL DOUBLE-STRUCK", None),
    ("bold-fraktur", "MATHEMATICAL BOLD FRAKTUR", None, "MATHEMATICAL BOLD"),                        # bold Greek fallback
    ("script", "MATHEMATICAL SCRIPT", None, None),
    ("bold-script", "MATHEMATICAL BOLD SCRIPT", None, "MATHEMATICAL BOLD"),                          # bold Greek fallback
    ("fraktur", "MATHEMATICAL FRAKTUR", None, None),
    ("sans-serif", "MATHEMATICAL SANS-SERIF", "MATHEMATICAL SANS-SERIF", None),
    ("bold-sans-serif", "MATHEMATICAL SANS-SERIF BOLD", "MATHEMATICAL SANS-SERIF BOLD", "MATHEMATICAL SANS-SERIF BOLD"),
    ("sans-serif-italic", "MATHEMATICAL SANS-SERIF ITALIC", "MATHEMATICAL SANS-SERIF", None),
    ("sans-serif-bold-italic", "MATHEMATICAL SANS-SERIF BOLD ITALIC", "MATHEMATICAL SANS-SERIF BOLD", "MATHEMATICAL SANS-SERIF BOLD ITALIC"),
    ("monospace", "MATHEMATICAL MONOSPACE", "MATHEMATICAL MONOSPACE", None),
]
LEGACY = {"MATHEMATICAL SCRIPT": "SCRIPT", "MATHEMATICAL FRAKTUR": "BLACK-LETTER", "MATHEMATICAL DOUBLE-STRUCK": "DOUBLE-STRUCK"}
DIGITS = ["ZERO", "ONE", "TWO", "THREE", "FOUR", "FIVE", "SIX", "SEVEN", "EIGHT", "NINE"]
GREEK_SYMBOLS = {"∇": "NABLA", "∂": "PARTIAL DIFFERENTIAL", "ϵ": "EPSILON SYMBOL", "ϑ": "THETA SYMBOL", "ϰ": "KAPPA SYMBOL",
                 "ϕ": "PHI SYMBOL", "ϱ": "RHO SYMBOL", "ϖ": "PI SYMBOL", "ϴ": "CAPITAL THETA SYMBOL"}


def lookup(name):
    try:
        return unicodedata.lookup(name)
    except KeyError:
        return None


def domain():
    d = [chr(c) for c in range(ord("A"), ord("Z") + 1)] + [chr(c) for c in range(ord("a"), ord("z") + 1)]
    d += [chr(c) for c in range(ord("0"), ord("9") + 1)]
    d += [chr(c) for c in range(0x391, 0x3AA) if c != 0x3A2] + [chr(c) for c in range(0x3B1, 0x3CA)]
    d += list(GREEK_SYMBOLS) + ["Ϝ", "ϝ"]
    return d


def expected(vi, ch):
    name, latin, digit, greek = VARIANTS[vi]
    if ch.isascii() and ch.isalpha():
        if latin is None:
            return ch
        case = "CAPITAL" if ch.isupper() else "SMALL"
        r = lookup("%s %s %s" % (latin, case, ch.upper()))
        if r is None and latin in LEGACY:
            r = lookup("%s %s %s" % (LEGACY[latin], case, ch.upper()))
        if r is None and latin == "MATHEMATICAL ITALIC" and ch == "h":
            r = lookup("PLANCK CONSTANT")
        if r is None:
            raise ValueError("no UCD character for %s %s" % (latin, ch))
        return r
    if ch.isascii() and ch.isdigit():
        return ch if digit is None else lookup("%s DIGIT %s" % (digit, DIGITS[int(ch)]))
    if ch in ("Ϝ", "ϝ"):
        if greek == "MATHEMATICAL BOLD":
            return lookup("MATHEMATICAL BOLD %s DIGAMMA" % ("CAPITAL" if ch == "Ϝ" else "SMALL"))
        return ch      # Unicode has digamma only in bold
    if greek is None:
        return ch
    if ch in GREEK_SYMBOLS:
        return lookup("%s %s" % (greek, GREEK_SYMBOLS[ch]))
    n = unicodedata.name(ch)   # GREEK CAPITAL LETTER ALPHA / GREEK SMALL LETTER FINAL SIGMA
    m = re.match(r"GREEK (CAPITAL|SMALL) LETTER (.*)", n)
    return lookup("%s %s %s" % (greek, m.group(1), m.group(2)))


HARNESS = r'''
fn per_char(ch: char, char_mapping: &[u32; 3]) -> char {
    PER_CHAR_EXPR
}
fn mapping(v: usize) -> &'static [u32; 3] { lookup_variant(v).unwrap() }

// K-C18-a: for every mapped mathvariant value and EVERY char: the real per-character kernel returns what the UCD says
HARNESS(mathvariant_matches_unicode, 24) {
    let v = sym::below(NVAR);
    let ch = sym::ch();
    cover!(v == 5 && ch == 'B', "script B (hole) reachable");
    cover!(v == 1 && ch == 'ϝ', "bold digamma reachable");
    cover!(!in_domain(ch), "char outside the letter/digit/Greek domain reachable");
    let out = per_char(ch, mapping(v)) as u32;
    assert!(out < 0xD800 || (out > 0xDFFF && out <= 0x10FFFF), "invalid scalar value produced");
    assert!(out == oracle(v, ch) as u32, "mathvariant result differs from the Unicode math alphanumeric for this style");
}

// K-C18-b: within one style the mapping is one-to-one on letters, digits and Greek
HARNESS(mathvariant_injective, 24) {
    let v = sym::below(NVAR);
    let c1 = sym::ch();
    let c2 = sym::ch();
    sym::assume(in_domain(c1) && in_domain(c2) && c1 != c2);
    cover!(c1 == 'A' && c2 == 'Α', "Latin A vs Greek Alpha reachable");
    assert!(per_char(c1, mapping(v)) != per_char(c2, mapping(v)), "two different letters map to the same character");
}

// K-C18-c: every key of MATH_VARIANTS is one of the 13 documented names and vice versa (table complete)
HARNESS(mathvariant_table_complete, 24) {
    let v = sym::below(NVAR);
    cover!(v == NVAR - 1, "last variant reachable");
    assert!(lookup_variant(v).is_some(), "documented mathvariant value missing from MATH_VARIANTS");
    assert!(MATH_VARIANTS.len() == NVAR, "MATH_VARIANTS has an undocumented entry");
}
'''


def build(run):
    run.outside += ["that canonicalize_plane1 is applied to every token carrying mathvariant (DOM walk)",
                    "multi-character tokens: the loop `for ch in old_text.chars()` applies the verified kernel per char (String building not encoded)"]
    c = slicer.Source.get("src/canonicalize.rs")
    plane1 = c.find("fn canonicalize_plane1")
    shift_text = plane1.find("fn shift_text")
    items = [plane1.find("static MATH_VARIANTS"), shift_text.find("struct Offsets"), shift_text.find("static SHIFT_AMOUNTS"),
             shift_text.find("fn shift_char")]
    expr = c.find_expr("match SHIFT_AMOUNTS . get ( & ch )", within=shift_text)
    run.uses(*items, expr)
    dom = domain()
    arms = []
    for vi in range(len(VARIANTS)):
        for ch in dom:
            e = expected(vi, ch)
            if e != ch:
                arms.append("        (%d, %s) => %s," % (vi, slicer.rust_char(ch), slicer.rust_char(e)))
    oracle = "fn oracle(v: usize, c: char) -> char {\n    match (v, c) {\n%s\n        _ => c,\n    }\n}\n" % "\n".join(arms)
    in_dom = "fn in_domain(c: char) -> bool { match c { %s => true, _ => false } }\n" % " | ".join(slicer.rust_char(x) for x in dom)
    lookup_v = "fn lookup_variant(v: usize) -> Option<&'static [u32; 3]> {\n    match v {\n%s\n        _ => None,\n    }\n}\n" % "\n".join(
        '        %d => MATH_VARIANTS.get("%s"),' % (i, v[0]) for i, v in enumerate(VARIANTS))
    names = lookup_v + "const NVAR: usize = %d;\nconst VARIANT_NAMES: [&str; NVAR] = [%s];\n" % (len(VARIANTS), ", ".join('"%s"' % v[0] for v in VARIANTS))
    body = prelude.PHF_MOCK + "\n".join(i.text for i in items) + "\n" + names + oracle + in_dom + HARNESS.replace("PER_CHAR_EXPR", expr.text)
    crate = kani_run.Crate("c18mv", body, native_deps=prelude.PHF_NATIVE_DEP)
    run.bound("K-C18", "13 mapped mathvariant values x all 0x110000 chars (no bound on the char); oracle = UCD names via python unicodedata %s for %d letters/digits/Greek symbols, identity elsewhere" % (unicodedata.unidata_version, len(dom)))
    run.assume("phf maps expanded from their verbatim table text into match lookups under Kani (native replay uses the real phf crate)",
               "the loop body expression `match SHIFT_AMOUNTS.get(&ch) {..}` is compiled verbatim inside fn per_char(ch, char_mapping)",
               "documented fallbacks taken from the property statement: bold Greek for bold-script/bold-fraktur, upright digits for italic styles, plain italic Latin unchanged")

    def role(vals, out):
        v = vals[0][0]
        cp = int.from_bytes(bytes(vals[1]), "little")
        return "variant=%s char=U+%04X" % (VARIANTS[v][0] if v < len(VARIANTS) else v, cp)

    def api(vals, out):
        v = vals[0][0]
        cp = int.from_bytes(bytes(vals[1]), "little")
        ch = chr(cp)
        if ch in "<&>\"'" or cp < 0x20 or unicodedata.category(ch) in ("Zs", "Cc", "Cf", "Cs", "Co", "Cn"):
            return True, "no API recipe for this char"
        tag = "mn" if ch.isdigit() else "mi"
        res = mcprobe([("mathml", "<math><%s mathvariant='%s'>&#x%X;</%s></math>" % (tag, VARIANTS[v][0], cp, tag))])
        if res[0][0] != "OK":
            return False, {"api": res[0]}
        m = re.search(r"<%s[^>]*>([^<]*)</%s>" % (tag, tag), res[0][1])
        got = m.group(1) if m else None
        want = expected(v, ch) if ch in dom else ch
        return got != want, {"variant": VARIANTS[v][0], "char": ch, "canonical_text": got, "unicode_says": want}

    run.kani(crate, [
        dict(id="K-C18-a.matches_unicode", harness="mathvariant_matches_unicode", role=role, api=api,
             covers=["script B (hole) reachable", "bold digamma reachable", "char outside the letter/digit/Greek domain reachable"],
             claim="for every variant v and every char c: per_char(c, MATH_VARIANTS[v]) == UCD(v, c); valid scalar value"),
        dict(id="K-C18-b.injective", harness="mathvariant_injective", role=lambda v, o: "collision", covers=["Latin A vs Greek Alpha reachable"],
             claim="for every variant and c1 != c2 in the domain: results differ"),
        dict(id="K-C18-c.table_complete", harness="mathvariant_table_complete", role=lambda v, o: "table", covers=["last variant reachable"],
             claim="MATH_VARIANTS has exactly the 13 documented keys"),
    ], timeout=600)
