"""C08 — No API call crashes the host (DESIGN.md §3 C08).  Decided part: panic freedom (Rust panics are Kani
assertions, unwinding assertions on) of the input-facing kernels that can be cut free of the DOM."""
import kani_run
import prelude
import slicer
from framework import mcprobe

ERR_SHIM = r'''
pub type Result<T> = core::result::Result<T, ()>;
macro_rules! bail { ($($t:tt)*) => { return Err(()) }; }
'''

KEY_HARNESS = r'''

// K-C08-a: every key code (full usize) x 16 modifier sets: Err or a command the dispatcher knows; never a panic
HARNESS(key_press_total, 20) {
    let key = sym::usize();
    let (s, c, a, m) = (sym::bool(), sym::bool(), sym::bool(), sym::bool());
    cover!(key == 0x39 && c && !s, "ctrl+9 (SetPlacemarker9) reachable");
    cover!(key == VK_RETURN && s, "shift+enter reachable");
    match key_press_to_command_and_param(key, s, c, a, m) {
        Err(_) => { cover!(a, "rejected modifier reachable"); }
        Ok((command, param)) => {
            let name = navigation_command_string(command, param);
            assert!(name.len() >= 4, "empty command name");   // membership of the name in NAV_COMMANDS is lemma Z-C08-a2 (table level)
        }
    }
}
'''


IDS_HARNESS = r'''
const DIGITS: &str = "zzzzzzzzzzzzz";     // content is irrelevant for the slicing arithmetic; 13 = base-36 digits of u64::MAX
fn ndigits36(v: u64) -> usize { let mut n = 1; let mut p: u64 = 36; while n < 13 && v >= p { n += 1; p = p.saturating_mul(36); } n }

// K-C08-b: the two slice expressions of the id prefix never panic, for EVERY clock / RNG value
HARNESS(id_prefix_slices_total, 16) {
    let time = sym::u64();
    let rnd = sym::u64();
    let wasm32 = sym::bool();
    if wasm32 { sym::assume(time <= u32::MAX as u64 && rnd <= u32::MAX as u64); }    // wasm32: usize is 32 bits, time is rand::random::<usize>()
    let (nt, nr) = (ndigits36(time), ndigits36(rnd));
    cover!(nt < 3, "tiny time value reachable");
    cover!(nr < 4, "tiny random value reachable");
    cover!(nt == 13 && nr == 13, "13-digit values reachable");
    let time_part: &str = &DIGITS[..nt];
    let random_part: &str = &DIGITS[..nr];
    let t: &str = TIME_SLICE;
    let r: &str = RANDOM_SLICE;
    assert!(t.len() <= 3 && r.len() <= 4 && t.len() >= 1 && r.len() >= 1, "id prefix parts have the wrong length");
}
'''


def build(run):
    run.outside += ["whole-API panic freedom: set_mathml/get_*/navigation run sxd_document, sxd_xpath, regex, yaml-rust (DESIGN.md M2)",
                    "stack overflow on deep nesting, termination of the rule interpreter", "'after an error the library is still usable' (whole session state)"]
    nav = slicer.Source.get("src/navigate.rs")
    items = [nav.find("static NAV_COMMANDS")] + [nav.find("const " + n) for n in
             ("VK_LEFT", "VK_RIGHT", "VK_UP", "VK_DOWN", "VK_RETURN", "VK_SPACE", "VK_HOME", "VK_END", "VK_BACK", "VK_ESCAPE")] + \
            [nav.find("enum NavigationCommand"), nav.find("enum NavigationParam"), nav.find("fn choose_command"), nav.find("fn choose_param"),
             nav.find("fn key_press_to_command_and_param"), nav.find("fn navigation_command_string")]
    run.uses(*items)
    import tables
    from smt_run import smt_str
    keys = tables.phf_set_keys(items[0])
    if len(keys) < 50:
        raise slicer.SliceError("NAV_COMMANDS: only %d keys extracted" % len(keys))
    # Z-C08-a2: every string literal navigation_command_string can return is a key of NAV_COMMANDS (or "Error")
    fn = items[-1]
    toks = [t for t in slicer.lex(fn.text) if t.kind != "comment"]
    returned, i = [], 0
    while i < len(toks):
        if toks[i].text == "panic" and toks[i + 1].text == "!":
            depth, i = 0, i + 2
            while True:
                if toks[i].text == "(":
                    depth += 1
                elif toks[i].text == ")":
                    depth -= 1
                    if depth == 0:
                        break
                i += 1
        elif toks[i].kind == "str":
            returned.append(slicer.unquote(toks[i].text))
        i += 1
    if len(returned) < 60:
        raise slicer.SliceError("navigation_command_string: only %d returned literals found" % len(returned))
    q = "(declare-const r String)\n(assert (or %s))\n(assert (not (or (= r \"Error\") %s)))" % (
        " ".join("(= r %s)" % smt_str(x) for x in returned), " ".join("(= r %s)" % smt_str(k) for k in keys))
    run.smt("Z-C08-a2.returned_names_are_commands", q, get=("r",),
            witness=lambda m: ("command-name:" + m["r"], "navigation_command_string can return %r which NAV_COMMANDS does not contain" % m["r"], {"name": m["r"]}),
            vacuity="(declare-const r String)\n(assert (or %s))" % " ".join("(= r %s)" % smt_str(x) for x in returned),
            claim="every non-panic string literal in navigation_command_string (%d) is a key of NAV_COMMANDS (%d keys) or \"Error\"" % (len(returned), len(keys)))
    body = prelude.PHF_MOCK + ERR_SHIM + "\n".join(i.text for i in items) + KEY_HARNESS
    crate = kani_run.Crate("c08key", body, native_deps=prelude.PHF_NATIVE_DEP)
    run.bound("K-C08-a", "key: every usize value; shift/control/alt/meta: all 16 combinations (no bound)")
    run.assume("bail! formatting replaced by `return Err(())` (error text is not the subject)",
               "NAV_COMMANDS expanded from its verbatim phf_set! text into a match lookup under Kani; native replay uses the real phf crate")

    def api(vals, out):
        key = int.from_bytes(bytes(vals[0]), "little")
        mods = [v[0] for v in vals[1:5]]
        res = mcprobe([("mathml", "<math><mi>x</mi><mo>+</mo><mi>y</mi></math>"), "key %d %d %d %d %d" % (key, *mods)])
        return res[-1][0] not in ("OK", "ERR"), {"key": key, "mods": mods, "result": res[-1]}

    run.kani(crate, [dict(id="K-C08-a.key_press_total", harness="key_press_total", api=api,
                          covers=["ctrl+9 (SetPlacemarker9) reachable", "shift+enter reachable", "rejected modifier reachable"],
                          role=lambda v, o: "key=%d" % int.from_bytes(bytes(v[0]), "little"),
                          claim="key_press_to_command_and_param . navigation_command_string is total: Err or a member of NAV_COMMANDS u {Error}")])

    # ---- K-C08-b: id prefix ---------------------------------------------------------------------------------------
    itf = slicer.Source.get("src/interface.rs")
    add_ids = itf.find("fn add_ids")
    stmt = add_ids.find_stmt("let prefix =")
    t_slice = itf.find_bracketed("& time_part [", within=stmt)[0]
    r_slice = itf.find_bracketed("& random_part [", within=stmt)[0]
    run.uses(stmt, t_slice, r_slice)
    import re
    shape_ok = re.match(r'let prefix\s*=\s*"M"\.to_string\(\)\s*\+', stmt.text) and re.search(r'\+\s*"-"\s*;', stmt.text)
    run.queries += 1
    if shape_ok:
        run.holds("K-C09-b.id_prefix_shape", note="(syntactic: prefix = \"M\" + .. + \"-\")")
    else:
        run.inconclusive_("K-C09-b.id_prefix_shape", "the prefix statement no longer has the shape \"M\" + ... + \"-\": %s" % stmt.text)
    crate2 = kani_run.Crate("c08ids", IDS_HARNESS.replace("TIME_SLICE", t_slice.text).replace("RANDOM_SLICE", r_slice.text))
    run.bound("K-C08-b", "clock and RNG values: every u64 (64-bit targets) and every u32 (wasm32); their base-36 renderings enter only through their length 1..13")
    run.assume("SystemTime::now / rand::random / radix_fmt::radix(.,36).to_string() replaced by: an arbitrary value rendered as a string of ndigits36(value) characters (content irrelevant to the slicing arithmetic)")
    run.kani(crate2, [dict(id="K-C08-b.id_prefix_slices_total", harness="id_prefix_slices_total",
                           covers=["tiny time value reachable", "tiny random value reachable", "13-digit values reachable"],
                           role=lambda v, o: "tiny-clock-or-rng-value",
                           claim="&time_part[..] and &random_part[..] in add_ids never panic (slice index underflow) whatever the clock / RNG return")], timeout=300)

    # ---- K-C08-c: intent lexer (shared with C19) and K-C08-e: preference setter (shared with C12) -----------------------------
    from checks import C19, C12
    ntok = 3 if run.tier == "quick" else 4
    crate3, _ = C19.lexer_crate(run, "c08lex", ntok)          # 13-char alphabet (<= 2 bytes per char) in both tiers
    lem = C19.lexer_lemma(run, crate3, ntok)
    lem["id"] = "K-C08-c.intent_lexer_step"
    crate4, lemmas4 = C12.kernel(run, "c08prefs")
    l4 = dict(lemmas4[0], id="K-C08-e.set_string_pref")
    lem["timeout"] = 900 if run.tier == "quick" else 3000
    lem["deep"] = True          # ~410 s of solver time for this one harness: thorough tier only (as in C19)
    run.kani(crate3, [lem])
    run.kani(crate4, [l4], timeout=900)

    # ---- K-C08-f: a failing set_mathml leaves the previously set expression installed (recoverability) ---------------------------
    sm = itf.find("fn set_mathml")
    clos = itf.find_expr("| old_package |", within=sm)
    start = itf.find_stmt("let new_package = parser :: parse", within=clos)
    tail = itf.src[start.start:clos.end - 1]      # from the parse statement to the end of the closure body
    run.uses(_span(itf, start.start, clos.end - 1, "interface.rs::fn set_mathml::closure tail (parse .. return)"))
    crate5 = kani_run.Crate("c08setml", SETML_SHIM + SETML_HARNESS.replace("TAIL", tail))
    run.bound("K-C08-f", "the statements of set_mathml from parser::parse to the end (verbatim); parse and cleanup_mathml each succeed or fail arbitrarily; package identities symbolic")
    run.assume("sxd_document::Package, parser::parse, get_element, cleanup_mathml, mml_to_string replaced by stand-ins with arbitrary outcomes; error text (bail!) not built")

    def api_recover(vals, out):
        res = mcprobe([("mathml", "<math><mi id='a'>x</mi><mo>+</mo><mi>y</mi></math>"), ("mathml", "<math><mfrac><mi>x</mi></mfrac></math>"), "speech", "navid", ("nav", "ZoomIn")])
        bad = res[1][0] != "ERR" or res[2] != ("OK", "x plus y") or any(r[0] not in ("OK", "ERR") for r in res)
        return bad, {"script": "set_mathml(valid); set_mathml(mfrac with one child) -> Err; get_spoken_text; get_navigation_mathml_id; ZoomIn", "results": res}
    run.kani(crate5, [dict(id="K-C08-f.failed_set_mathml_keeps_old_expression", harness="failed_set_mathml_keeps_old_expression", api=api_recover,
                           role=lambda v, o: "state-changed-on-error", covers=["canonicalization failure reachable", "success reachable"],
                           claim="set_mathml returns Err => the installed expression is the one from before the call; Ok => the new one")], timeout=300)


    # ---- K-C08-k: one navigation command (undo included) never unwraps an empty stack (kernel shared with C11 / C09) --------------------
    from checks import C11
    crate9, lemmas9 = C11.kernel(run, "c08nav")
    l9 = dict(lemmas9["one_rule_application_keeps_invariants"], id="K-C08-k.one_navigation_command_is_total")

    def api_undo_first(vals, out):
        res = mcprobe([("mathml", "<math><mi id='a'>x</mi><mo id='p'>+</mo><mi id='b'>y</mi></math>"), ("nav", "MoveLastLocation"), ("nav", "MoveNext"), ("nav", "MoveLastLocation"), ("nav", "MoveLastLocation"), "navid"])
        return any(r[0] == "PANIC" for r in res), {"script": "set_mathml; MoveLastLocation (nothing to undo); MoveNext; MoveLastLocation twice; get_navigation_mathml_id", "results": res[1:]}
    l9["api"] = api_undo_first
    run.kani(crate9, [l9], timeout=900)
    crate10, lemma10 = navid_lemma(run)
    run.kani(crate10, [lemma10], timeout=300)
    crate11, lemma11 = navbraille_lemma(run)
    run.kani(crate11, [lemma11], timeout=600)
    separator_lemma(run)
    crate12, lemma12 = presentation_lemma(run)
    run.kani(crate12, [lemma12], timeout=600)
    crate13, lemma13 = mhchem_lemma(run)
    run.kani(crate13, [lemma13], timeout=600)
    crate14, lemma14 = pseudo_lemma(run)
    run.kani(crate14, [lemma14], timeout=900)
    crate8, lemma8 = marker_lemma(run)
    run.kani(crate8, [lemma8], timeout=600)
    crate7, lemma7 = attach_lemma(run)
    run.kani(crate7, [lemma7], timeout=600)

    # ---- D-C08-h: clean_mmultiscripts never panics (shared with C02) -------------------------------------------------------------------
    if run.tier == "thorough":
        from checks import C02
        crate6, lemma6 = C02.mm_lemma(run)
        crate6 = kani_run.Crate("c08mm", crate6._args["body"])
        run.kani(crate6, [dict(lemma6, id="D-C08-h.clean_mmultiscripts_total")], timeout=1200)


def _span(source, a, b, name):
    return slicer.Span(source, a, b, name)


SETML_SHIM = r'''
use std::cell::RefCell;
pub type Result<T> = core::result::Result<T, Error>;
#[derive(Debug)] pub struct Error;
impl Error { fn to_string(&self) -> String { String::new() } }
macro_rules! bail { ($($t:tt)*) => { return Err(Error) }; }
#[derive(Debug, PartialEq, Eq)] pub struct Package { pub id: u8, pub canonical: bool }
#[derive(Clone, Copy)] pub struct Element { pub id: u8, pub ok: bool }
pub mod parser { pub fn parse(_s: &str) -> core::result::Result<super::Package, super::Error> { if crate::sym::bool() { Ok(super::Package { id: 2, canonical: false }) } else { Err(super::Error) } } }
fn get_element(p: &Package) -> Element { Element { id: p.id, ok: sym::bool() } }
fn cleanup_mathml(e: Element) -> Result<Element> { if e.ok { Ok(e) } else { Err(Error) } }
fn mml_to_string(_e: &Element) -> String { String::new() }
'''

SETML_HARNESS = r'''
fn set_mathml_tail(old_package: &RefCell<Package>, mathml_str: &str) -> Result<String> {
    TAIL
}
// K-C08-f
HARNESS(failed_set_mathml_keeps_old_expression, 4) {
    let old = RefCell::new(Package { id: 1, canonical: true });
    let r = set_mathml_tail(&old, "");
    let now = old.borrow().id;
    cover!(r.is_err() && now == 1, "canonicalization failure reachable");
    cover!(r.is_ok(), "success reachable");
    match r {
        Ok(s) => { assert!(now == 2, "set_mathml succeeded but the new expression is not installed"); core::mem::forget(s); }
        Err(_) => assert!(now == 1, "set_mathml failed but replaced the previously set expression (later calls work on a non-canonical tree)"),
    }
}
'''


# ======================================================================================================================
# D-C08-i: attach_scripts_to_split_element (run on every cleaned non-leaf child) is total up to its SPLIT_TOKEN test
ATTACH_SHIM = r"""
#[allow(non_snake_case, dead_code)]
mod IsNode { pub fn is_scripted(e: &crate::Element) -> bool { let n = crate::name(e); n == "msub" || n == "mmultiscripts" } }   // two of MATHML_SCRIPTED_NODES
"""

ATTACH_HARNESS = r"""
HARNESS(attach_scripts_prologue_total, 16) {
    // a scripted element (msub / mmultiscripts) or an mrow, whose first child is an mrow with 0..3 children or a leaf
    let kinds: [u8; 3] = [8, 3, 5];
    let e = dom::new_node(kinds[sym::below(3)]);
    let base_is_mrow = sym::bool();
    let base = dom::new_node(if base_is_mrow { 5 } else { 0 });
    e.append_child_id(base.id);
    let script = dom::new_node(6); e.append_child_id(script.id);
    let nb = sym::below(4);
    if base_is_mrow { let mut i = 0; while i < 3 { if i < nb { let c = dom::new_node(0); base.append_child_id(c.id); } i += 1; } }
    cover!(base_is_mrow && nb == 0 && name(&e) == "msub", "scripted element whose base mrow lost all its children reachable");
    cover!(base_is_mrow && nb == 3, "base mrow with three children reachable");
    let r = attach_scripts_to_split_element(e);                              // must not panic
    assert!(r.id == e.id, "nothing is marked as split: the element must be handed back unchanged");
}
"""


def api_attach(vals=None, out=None):
    res = mcprobe([("mathml", "<math><msub><mrow><mphantom><mi>a</mi></mphantom><mphantom><mi>b</mi></mphantom></mrow><mn>2</mn></msub></math>"), ("mathml", "<math><mi>z</mi></math>")])
    return res[0][0] not in ("OK", "ERR"), {"script": "set_mathml(msub whose base mrow holds only mphantoms: all its children are deleted while cleaning)", "results": res}


def attach_lemma(run):
    c = slicer.Source.get("src/canonicalize.rs")
    f = c.find("fn clean_mathml", "fn attach_scripts_to_split_element")
    test = c.find_expr("if last_child . attribute ( SPLIT_TOKEN ) . is_none ( )", within=f)
    split = slicer.Source.get("src/chemistry.rs").find("static SPLIT_TOKEN")
    prologue = slicer.Span(c, f.start, test.end, "attach_scripts_to_split_element::prologue")
    run.uses(prologue, split)
    crate = kani_run.Crate("c08attach", prelude.MINIDOM + ATTACH_SHIM + split.text + prologue.text + "\n    return mathml;\n}\n" + ATTACH_HARNESS)
    run.bound("D-C08-i", "msub / mmultiscripts / mrow with [base, script]; base a leaf or an mrow with 0..3 children, none of them marked data-split; the function up to and including its SPLIT_TOKEN test (the rest only runs for chemistry-split bases)")
    run.assume("model DOM (MINIDOM); IsNode::is_scripted reduced to msub/mmultiscripts; the part of the function after the SPLIT_TOKEN test is outside the claim")
    return crate, dict(id="D-C08-i.attach_scripts_prologue_total", harness="attach_scripts_prologue_total", api=lambda v, o: api_attach(),
                       role=lambda v, o: "empty-base-mrow-underflow" if "subtract with overflow" in o else "prologue-panic",
                       covers=["scripted element whose base mrow lost all its children reachable", "base mrow with three children reachable"],
                       claim="no panic whatever the base is; an element with no split-marked base is returned unchanged")


# ======================================================================================================================
# K-C08-j: the internal marker attribute data-maybe-chemistry can arrive with the input: reading it must not panic
MARK_SHIM = r"""
#[derive(Clone, Copy)] pub struct Element<'a> { attr: Option<&'a str>, is_mrow: bool }
impl<'a> Element<'a> {
    fn attribute_value(&self, _n: &str) -> Option<&'a str> { self.attr }
    fn attribute(&self, _n: &str) -> Option<()> { self.attr.map(|_| ()) }
    fn set_attribute_value(&self, _n: &str, _v: &str) { }
}
fn name(e: &Element) -> &'static str { if e.is_mrow { "mrow" } else { "mi" } }
fn get_parent<'a>(_e: Element<'a>) -> Element<'a> { Element { attr: None, is_mrow: true } }
static mut STATE: isize = 0;
fn likely_chem_state(_e: Element) -> isize { unsafe { STATE } }
pub struct CanonicalizeContext;
"""

MARK_HARNESS = r"""
HARNESS(marker_attribute_from_the_input_is_read_without_panic, 6, [std::string::ToString::to_string => to_string_stub]) {
    let b: [u8; 3] = [sym::u8(), sym::u8(), sym::u8()];
    let n = sym::below(4);
    sym::assume(b[0] >= 0x20 && b[0] < 0x7f && b[1] >= 0x20 && b[1] < 0x7f && b[2] >= 0x20 && b[2] < 0x7f);
    let value = unsafe { core::str::from_utf8_unchecked(&b[..n]) };             // any printable ASCII string of 0..3 chars: the attribute value as the author wrote it
    let node = Element { attr: if sym::bool() { Some(value) } else { None }, is_mrow: false };
    let sibling = Element { attr: None, is_mrow: sym::bool() };
    unsafe { STATE = sym::below(5) as isize - 1; }
    cover!(node.attr.is_some() && n == 1 && b[0] == b'x', "non-numeric marker value reachable");
    cover!(node.attr.is_some() && n == 1 && b[0] == b'2', "numeric marker value reachable");
    let _ = get_marked_value(node);                                              // must not panic
    let _ = CanonicalizeContext.is_likely_chemical_state(node, sibling);         // must not panic
}
"""


def api_marker(vals=None, out=None):
    res = mcprobe([("mathml", "<math><mrow><mi data-maybe-chemistry='x'>H</mi><mi>Cl</mi></mrow></math>"),
                   ("mathml", "<math><mrow><mi data-maybe-chemistry=''>Na</mi><mrow><mo>(</mo><mi>s</mi><mo>)</mo></mrow></mrow></math>"), ("mathml", "<math><mi>z</mi></math>")])
    return any(r[0] not in ("OK", "ERR") for r in res), {"script": "set_mathml(input that already carries data-maybe-chemistry with a non-numeric value)", "results": res}


def marker_lemma(run):
    c = slicer.Source.get("src/canonicalize.rs")
    ch = slicer.Source.get("src/chemistry.rs")
    f1 = c.find("impl CanonicalizeContext", "fn is_likely_chemical_state")
    f2 = ch.find("fn get_marked_value")
    en = c.find("enum FunctionNameCertainty")
    mk = ch.find("static MAYBE_CHEMISTRY")
    run.uses(f1, f2, en, mk)
    body = prelude.TOSTRING_STUB + MARK_SHIM + mk.text + "\n" + en.text + "\nimpl CanonicalizeContext {\n" + f1.text + "\n}\n" + f2.text + MARK_HARNESS
    crate = kani_run.Crate("c08marker", body)
    run.bound("K-C08-j", "get_marked_value (chemistry.rs) and is_likely_chemical_state (canonicalize.rs) verbatim, for a data-maybe-chemistry value that is any printable-ASCII string of 0..3 chars, sibling mrow or not, state likelihood -1..3")
    run.assume("sxd_document element reduced to (marker attribute value, is-mrow); likely_chem_state replaced by an arbitrary value; integer formatting stubbed")
    return crate, dict(id="K-C08-j.marker_attribute_from_input", harness="marker_attribute_from_the_input_is_read_without_panic", api=lambda v, o: api_marker(),
                       role=lambda v, o: "non-numeric-marker-attribute-unwrap",
                       covers=["non-numeric marker value reachable", "numeric marker value reachable"],
                       claim="no value of the marker attribute makes the two readers panic")


# ======================================================================================================================
# Z-C08-n: the regexes CanonicalizeContextPatterns::new builds from the separator PREFERENCES and unwraps: every value the API accepts
#          for BlockSeparators / DecimalSeparators must give a pattern the regex crate compiles
def separator_lemma(run):
    import re
    from checks import C16
    import rxsmt
    from smt_run import smt_str
    c = slicer.Source.get("src/canonicalize.rs")
    new_fn = c.find("impl CanonicalizeContextPatterns", "fn new")
    run.uses(new_fn)
    pats = C16.extract_patterns(new_fn)
    unwrapped = len(re.findall(r"Regex::new\(&format!\(", new_fn.text)) == len(re.findall(r"Regex::new\(&format!\([^;]*?\)\s*\)\s*\.unwrap\(\)", new_fn.text, re.S))
    run.bound("Z-C08-n", "the character-class templates of CanonicalizeContextPatterns::new with the hole regex::escape(preference value), every preference string (unbounded length)")
    run.assume("Z-C08-n: set_preference stores any string for the string preferences BlockSeparators / DecimalSeparators (K-C12-a); regex::escape makes every character of the value a literal, so a class `[` + escape(v) + `]` fails to compile exactly when it is empty")
    for pref, pname in (("BlockSeparators", "block_separator"), ("DecimalSeparators", "decimal_separator")):
        fmt = pats[pname][0]
        lid = "Z-C08-n.separator_patterns_compile." + pname
        if not unwrapped or "[{}]" not in fmt:
            run.queries += 1
            run.holds(lid, note="(the pattern %r is no longer an unwrapped bare character class around the preference value)" % fmt)
            continue

        def w(m, pref=pref, fmt=fmt):
            v = m["v"]
            pat = C16.rust_format(fmt, [rxsmt.escape_real(v)] * fmt.count("{}"))
            if rxsmt.rxcheck([("M", [pat, "x"])])[0] is not None:      # the real regex crate compiles the pattern: no witness
                return None
            other = "DecimalSeparators" if pref == "BlockSeparators" else "BlockSeparators"
            res = mcprobe([("pref", "DecimalSeparator Custom"), ("pref", pref + " " + v), ("mathml", "<math><mn>1</mn></math>"), ("pref", pref + (" ." if pref == "DecimalSeparators" else " ,")), ("mathml", "<math><mn>1</mn></math>")])
            if not any(r[0] in ("PANIC", "ABORT") for r in res):
                return None
            return ("empty-separator-preference", "set_preference(%s, %r) is accepted; CanonicalizeContextPatterns::new then builds the pattern %r and unwraps the compile error: every following set_mathml panics" % (pref, v, pat), {"pattern": pat, "api": res[1:3]})
        # a guard in front of the format! calls that replaces an empty value (`let x_pref = if x_pref.is_empty() { "lit" } else { x_pref };`) narrows what reaches the class
        param = {"block_separator": "block_separator_pref", "decimal_separator": "decimal_separator_pref"}[pname]
        mg = re.search(r"let\s+%s\s*=\s*if\s+%s\.is_empty\(\)\s*\{\s*(\"(?:[^\"\\]|\\.)*\")\s*\}\s*else\s*\{\s*%s\s*\}\s*;" % (param, param, param), new_fn.text)
        reach = "(ite (= v %s) %s v)" % (smt_str(""), smt_str(slicer.unquote(mg.group(1)))) if mg else "v"
        run.smt(lid, "(declare-const v String)\n(assert (= (str.len %s) 0))" % reach, get=("v",), witness=w,
                claim="no accepted value of %s makes the character class of %s empty" % (pref, pname))


# ======================================================================================================================
# K-C08-o: get_presentation_element (used by assure_mathml and by the <semantics> arm) never panics, whatever the annotations hold
PRES_SHIM = r"""
use core::marker::PhantomData;
#[derive(Clone, Copy, PartialEq, Debug)] pub struct Element<'a> { id: u8, p: PhantomData<&'a ()> }
#[derive(Clone, Copy, PartialEq, Debug)] pub enum ChildOfElement<'a> { Element(Element<'a>), Text }
impl<'a> ChildOfElement<'a> { pub fn element(&self) -> Option<Element<'a>> { match self { ChildOfElement::Element(e) => Some(*e), _ => None } } pub fn text(&self) -> Option<()> { match self { ChildOfElement::Text => Some(()), _ => None } } }
pub struct Kids<'a> { k: [ChildOfElement<'a>; 3], n: usize }
impl<'a> core::ops::Deref for Kids<'a> { type Target = [ChildOfElement<'a>]; fn deref(&self) -> &[ChildOfElement<'a>] { &self.k[..self.n] } }
/// element 0 = <semantics> with NSEM children (elements 1..=3); child c has kind KIND[c] (0 = mi, 1 = annotation, 2 = annotation-xml), an encoding
/// attribute ENC[c] (0 none, 1 MathML-Presentation, 2 another) and content CONTENT[c] (0 nothing, 1 one element, 2 two elements, 3 one text node)
static mut NSEM: usize = 0;
static mut KIND: [u8; 4] = [0; 4];
static mut ENC: [u8; 4] = [0; 4];
static mut CONTENT: [u8; 4] = [0; 4];
fn el<'a>(id: u8) -> Element<'a> { Element { id, p: PhantomData } }
impl<'a> Element<'a> {
    pub fn children(&self) -> Kids<'a> {
        let t = ChildOfElement::Text;
        if self.id == 0 { Kids { k: [ChildOfElement::Element(el(1)), ChildOfElement::Element(el(2)), ChildOfElement::Element(el(3))], n: unsafe { NSEM } } }
        else if self.id <= 3 { match unsafe { CONTENT[self.id as usize] } { 0 => Kids { k: [t, t, t], n: 0 }, 1 => Kids { k: [ChildOfElement::Element(el(10 + self.id)), t, t], n: 1 },
                                                                          2 => Kids { k: [ChildOfElement::Element(el(10 + self.id)), ChildOfElement::Element(el(20 + self.id)), t], n: 2 }, _ => Kids { k: [t, t, t], n: 1 } } }
        else { Kids { k: [t, t, t], n: 0 } }
    }
    pub fn attribute_value(&self, _n: &str) -> Option<&'static str> { if self.id >= 1 && self.id <= 3 { match unsafe { ENC[self.id as usize] } { 1 => Some("MathML-Presentation"), 2 => Some("application/x-tex"), _ => None } } else { None } }
}
fn name<'a>(e: &Element<'a>) -> &'static str { if e.id == 0 { "semantics" } else if e.id <= 3 { match unsafe { KIND[e.id as usize] } { 0 => "mi", 1 => "annotation", _ => "annotation-xml" } } else { "mi" } }
/// canonicalize::as_element: panics on a child that is not an element
fn as_element<'a>(c: ChildOfElement<'a>) -> Element<'a> { match c { ChildOfElement::Element(e) => e, _ => { assert!(false, "as_element: internal error -- found non-element child"); el(99) } } }
macro_rules! debug { ($($t:tt)*) => {}; }
"""

PRES_HARNESS = r"""
HARNESS(presentation_element_is_total, 22) {
    unsafe {
        NSEM = 1 + sym::below(3);
        let mut c = 1;
        while c <= 3 { KIND[c] = sym::below(3) as u8; ENC[c] = sym::below(3) as u8; CONTENT[c] = sym::below(4) as u8;
                       sym::assume(KIND[c] != 0 || (ENC[c] == 0 && CONTENT[c] == 3));          // an <mi> is a leaf without encoding
                       sym::assume(KIND[c] != 1 || CONTENT[c] == 3 || CONTENT[c] == 0);         // <annotation> holds text
                       c += 1; }
    }
    let (i, e) = get_presentation_element(el(0));
    cover!(unsafe { NSEM == 2 && KIND[2] == 2 && ENC[2] == 1 && CONTENT[2] == 2 }, "MathML-Presentation annotation with two children reachable");
    cover!(unsafe { KIND[1] == 1 && ENC[1] == 1 && CONTENT[1] == 3 }, "<annotation encoding='MathML-Presentation'> holding text reachable");
    assert!(i < unsafe { NSEM }, "index of the presentation child outside the children of <semantics>");
    let _ = e;
}
"""


def api_presentation(vals=None, out=None):
    res = mcprobe([("mathml", "<math><semantics><annotation-xml encoding='MathML-Presentation'><mi>a</mi><mi>b</mi></annotation-xml></semantics></math>"),
                   ("mathml", "<math><semantics><annotation-xml encoding='MathML-Presentation'></annotation-xml></semantics></math>"),
                   ("mathml", "<math><semantics><annotation encoding='MathML-Presentation'>text</annotation></semantics></math>"),
                   ("mathml", "<math><semantics><mi>x</mi><annotation-xml encoding='MathML-Presentation'><mi>a</mi></annotation-xml></semantics></math>")])
    return any(r[0] in ("PANIC", "ABORT") for r in res), {"script": "set_mathml(<semantics> whose MathML-Presentation annotation has two / no element children, or is an <annotation> holding text): an error or a result, not a panic", "results": [(r[0], str(r[1])[:120]) for r in res]}


def presentation_lemma(run):
    c = slicer.Source.get("src/canonicalize.rs")
    f = c.find("fn get_presentation_element")
    run.uses(f)
    helpers = slicer.called_helpers(c, f.text, PRES_SHIM + "fn get_presentation_element")
    run.uses(*helpers)
    crate = kani_run.Crate("c08pres", PRES_SHIM + f.text.replace("pub fn get_presentation_element(element: Element) -> (usize, Element)", "pub fn get_presentation_element<'a>(element: Element<'a>) -> (usize, Element<'a>)") + "\n" + "\n".join(h.text for h in helpers) + PRES_HARNESS)
    run.bound("K-C08-o", "get_presentation_element verbatim; <semantics> with 1..3 children, each an mi / annotation / annotation-xml, with no / the MathML-Presentation / another encoding, holding nothing, one element, two elements or a text node")
    run.assume("K-C08-o: sxd_document elements reduced to (kind, encoding, content shape); as_element panics on a non-element child as the real function does")
    return crate, dict(id="K-C08-o.presentation_element_total", harness="presentation_element_is_total", api=lambda v, o: api_presentation(),
                       role=lambda v, o: "presentation-annotation-shape-panics", covers=["MathML-Presentation annotation with two children reachable", "<annotation encoding='MathML-Presentation'> holding text reachable"],
                       claim="get_presentation_element returns a child of <semantics> for every annotation shape: no assert / as_element panic")


# ======================================================================================================================
# K-C08-p: is_from_mhchem_hack (asked for every single-child mrow / mpadded under a script element) never indexes an empty child list
MH_SHIM = r"""
use core::marker::PhantomData;
#[derive(Clone, Copy, PartialEq, Debug)] pub struct Element<'a> { id: u8, p: PhantomData<&'a ()> }
#[derive(Clone, Copy, PartialEq, Debug)] pub struct ChildOfElement<'a>(Element<'a>);
pub struct Kids<'a> { k: [ChildOfElement<'a>; 2], n: usize }
impl<'a> core::ops::Deref for Kids<'a> { type Target = [ChildOfElement<'a>]; fn deref(&self) -> &[ChildOfElement<'a>] { &self.k[..self.n] } }
/// a chain 0 (script element) > 1 (the element asked about) > 2 > 3 > 4 > 5; node c has NAME[c] in {mrow, mpadded, mphantom, mi, msub} and NCH[c] in 0..2 children
/// (the first child is the next node of the chain, a second child is a plain <mi>)
const NAMES: [&str; 5] = ["mrow", "mpadded", "mphantom", "mi", "msub"];
static mut NAME: [u8; 8] = [0; 8];
static mut NCH: [u8; 8] = [0; 8];
static mut WIDTH: u8 = 0;
fn el<'a>(id: u8) -> Element<'a> { Element { id, p: PhantomData } }
impl<'a> Element<'a> {
    pub fn children(&self) -> Kids<'a> { let n = if self.id <= 5 { (unsafe { NCH[self.id as usize] }) as usize } else { 0 }; Kids { k: [ChildOfElement(el(if self.id < 5 { self.id + 1 } else { 7 })), ChildOfElement(el(7))], n } }
    pub fn attribute_value(&self, _n: &str) -> Option<&'static str> { match unsafe { WIDTH } { 0 => None, 1 => Some("0"), _ => Some("1em") } }
}
fn name<'a>(e: &Element<'a>) -> &'static str { NAMES[if e.id <= 5 { (unsafe { NAME[e.id as usize] }) as usize } else { 3 }] }
fn as_element<'a>(c: ChildOfElement<'a>) -> Element<'a> { c.0 }
fn as_text<'a>(e: Element<'a>) -> &'static str { assert!(unsafe { NAME[e.id as usize] } == 3 || e.id > 5, "as_text of a non-leaf"); "A" }
fn get_parent<'a>(e: Element<'a>) -> Element<'a> { assert!(e.id > 0, "no parent"); el(e.id - 1) }
"""

MH_HARNESS = r"""
HARNESS(mhchem_hack_test_is_total, 10) {
    unsafe {
        NAME[0] = 4;                                         // the parent is a script element (otherwise the function answers at once)
        let mut c = 1;
        while c <= 5 { NAME[c] = sym::below(4) as u8; NCH[c] = sym::below(3) as u8; c += 1; }
        WIDTH = sym::below(3) as u8;
        // documented precondition (the two asserts at the top; every caller checks them): an mrow or mpadded with exactly one child
        sym::assume((NAME[1] == 0 || NAME[1] == 1) && NCH[1] == 1);
        // leaves have no element children
        let mut c = 1; while c <= 5 { sym::assume(NAME[c] != 3 || NCH[c] == 0); c += 1; }
    }
    let r = is_from_mhchem_hack(el(1));
    cover!(r, "mhchem shape recognised");
    cover!(unsafe { NAME[1] == 0 && NAME[2] == 0 && NAME[3] == 1 && NCH[3] == 0 && WIDTH == 1 }, "mrow > mrow > empty mpadded of width 0 reachable");
}
"""


def api_mhchem(vals=None, out=None):
    res = mcprobe([("mathml", "<math><msub><mrow><mrow><mpadded width='0'/></mrow></mrow><mn>1</mn></msub></math>"), ("mathml", "<math><mi>z</mi></math>")])
    return any(r[0] in ("PANIC", "ABORT") for r in res), {"script": "set_mathml(<msub><mrow><mrow><mpadded width='0'/></mrow></mrow><mn>1</mn></msub>): a result or an error, not a panic", "results": [(r[0], str(r[1])[:160]) for r in res]}


def mhchem_lemma(run):
    c = slicer.Source.get("src/canonicalize.rs")
    f = c.find("fn clean_mathml", "fn is_from_mhchem_hack")
    run.uses(f)
    crate = kani_run.Crate("c08mh", MH_SHIM + f.text.replace("fn is_from_mhchem_hack(mathml: Element) -> bool", "fn is_from_mhchem_hack<'a>(mathml: Element<'a>) -> bool") + MH_HARNESS)
    run.bound("K-C08-p", "is_from_mhchem_hack verbatim on a chain of five nested elements under a script element, each an mrow / mpadded / mphantom / mi with 0..2 children, width attribute absent / '0' / other; precondition: the element asked about is an mrow or mpadded with one child")
    run.assume("K-C08-p: sxd_document elements reduced to (name, number of children); as_text answers 'A'")
    return crate, dict(id="K-C08-p.mhchem_hack_test_total", harness="mhchem_hack_test_is_total", api=lambda v, o: api_mhchem(),
                       role=lambda v, o: "empty-mpadded-indexed", covers=["mhchem shape recognised", "mrow > mrow > empty mpadded of width 0 reachable"],
                       claim="is_from_mhchem_hack answers for every nesting within the bound: no index into an empty child list")


# ======================================================================================================================
# D-C08-q: handle_pseudo_scripts is called by clean_mathml as `let mathml = handle_pseudo_scripts(merged)`: what it hands back takes the
#          place of the element being cleaned, so it must never be that element's PARENT (the parent would become its own child)
PS_SHIM = r"""
const EXCL_RETURNS_THE_PARENT: bool = false;
pub mod xpath_functions { pub struct IsNode; impl IsNode { pub fn is_scripted(e: &super::Element) -> bool { let n = super::name(e); n == "msub" || n == "msup" || n == "msubsup" || n == "mmultiscripts" } } }
mod crate_ { pub use super::xpath_functions; }
fn mml_to_string(_e: &Element) -> String { String::from("m") }
impl<'a> dom::Element<'a> {
    /// only data-pseudo-script is asked for here; it is kept in the id-code cell of the model (the elements of this lemma have no ids)
    fn attribute_ps(&self) -> bool { self.attribute("id").is_some() }
}
"""

PS_HARNESS = r"""
/// one concrete shape: parent P (0 = mrow, 1 = msup, 2 = mfrac) holding  [<mi>x</mi>]? M   where M = <mrow> of one prime, or of a prime and an x
/// -> 0 ok, 1 = the parent was handed back, 2 = another element was handed back
fn shape(pk: usize, first: bool, all_pseudo: bool) -> u8 {
    let parent = dom::new_node(match pk { 0 => 5, 1 => 11, _ => 9 });
    if !first { let x = dom::new_node(0); dom::set_leaf(x, 4); parent.append_child_id(x.id); }
    let m = dom::new_node(5);
    let prime = dom::new_node(7); dom::set_leaf(prime, 25); m.append_child_id(prime.id);
    if !all_pseudo { let y = dom::new_node(0); dom::set_leaf(y, 4); m.append_child_id(y.id); }
    parent.append_child_id(m.id);
    let r = handle_pseudo_scripts(m);
    if r.id == parent.id { 1 } else if r.id != m.id { 2 } else { 0 }
}
HARNESS(pseudo_script_hands_back_its_own_element, 12, [std::string::ToString::to_string => to_string_stub]) {
    let k = sym::below(12);
    if EXCL_RETURNS_THE_PARENT { sym::assume(k != 2); }       // known finding C08/returns-the-parent assumed away: pseudo scripts only, not first, parent an mrow
    let code = match k {
        0 => shape(0, true, true), 1 => shape(0, true, false), 2 => shape(0, false, true), 3 => shape(0, false, false),
        4 => shape(1, true, true), 5 => shape(1, true, false), 6 => shape(1, false, true), 7 => shape(1, false, false),
        8 => shape(2, true, true), 9 => shape(2, true, false), 10 => shape(2, false, true), _ => shape(2, false, false),
    };
    cover!(k == 6, "row of pseudo scripts already in script position reachable");
    cover!(k == 3, "row with an operand reachable");
    assert!(code != 1, "handle_pseudo_scripts hands back the PARENT of the element it was asked about: clean_mathml installs the parent as its own child (unbounded recursion later)");
    assert!(code != 2, "handle_pseudo_scripts hands back another element than the one it was asked about");
}
"""


def api_pseudo(vals=None, out=None):
    res = mcprobe([("mathml", "<math><mrow><mi>x</mi><mrow intent='prime'><mo>′</mo></mrow></mrow></math>"), ("mathml", "<math><mi>z</mi></math>")], timeout=120)
    return any(r[0] in ("PANIC", "ABORT") for r in res), {"script": "set_mathml(<mrow><mi>x</mi><mrow intent='prime'><mo>prime</mo></mrow></mrow>): the process overflows its stack (abort)", "results": [(r[0], str(r[1])[:200]) for r in res]}


def pseudo_lemma(run):
    c = slicer.Source.get("src/canonicalize.rs")
    f = c.find("fn clean_mathml", "fn handle_pseudo_scripts")
    one = c.find("static ELEMENTS_WITH_ONE_CHILD")
    run.uses(f, one)
    text = f.text.replace("crate::xpath_functions::IsNode", "xpath_functions::IsNode").replace('child.attribute("data-pseudo-script").is_some()', 'child.attribute_ps()') \
        .replace('mrow.set_attribute_value("data-pseudo-script", "true")', 'mrow.set_attribute_value("id", "ps")')
    consts = slicer.referenced_consts(c, f.text, PS_SHIM + one.text)
    run.uses(*consts)
    body = prelude.STR_STUBS + prelude.PHF_MOCK + prelude.MINIDOM + prelude.TOSTRING_STUB + PS_SHIM + one.text + "\n" + "\n".join(k.text for k in consts) + "\n" + text + PS_HARNESS
    crate = kani_run.Crate("c08ps", body, native_deps=prelude.PHF_NATIVE_DEP)
    run.bound("D-C08-q", "handle_pseudo_scripts verbatim (with its nested is_pseudo_script) on the model DOM: an mrow of one prime, or of a prime and an operand, as first or second child of an mrow / msup / mfrac")
    run.assume("D-C08-q: model DOM (MINIDOM); the data-pseudo-script attribute is kept in the model's id cell (two textual substitutions in the slice: the attribute name in set_attribute_value / attribute); PSEUDO_SCRIPTS / ELEMENTS_WITH_ONE_CHILD expanded from their table text")
    return crate, dict(id="D-C08-q.pseudo_script_returns_own_element", harness="pseudo_script_hands_back_its_own_element", api=lambda v, o: api_pseudo(),
                       role=lambda v, o: "returns-the-parent" if "hands back the PARENT" in o else "returns-another-element",
                       exclusions={"returns-the-parent": "RETURNS_THE_PARENT"},
                       covers=["row of pseudo scripts already in script position reachable", "row with an operand reachable"],
                       claim="handle_pseudo_scripts(e) hands back e itself (its children may be regrouped), never e's parent")


# ======================================================================================================================
# K-C08-m: get_navigation_braille with a character offset into a leaf: every (leaf text, offset) gives a value or an error -- also for
#          texts whose characters are not one byte long
NB_SHIM = r"""
pub type Result<T> = core::result::Result<T, Error>;
#[derive(Debug)] pub struct Error;
macro_rules! bail { ($($t:tt)*) => { return Err(Error) }; }
#[derive(Clone, Copy, PartialEq, Debug)] pub struct Element { id: u8 }
pub struct Doc;
pub struct Root;
impl Doc { fn root(&self) -> Root { Root } }
impl Root { fn append_child(&self, _e: Element) {} }
const TEXTS: [&str; 4] = ["\u{3b1}\u{3b2}\u{3b3}", "12", "\u{3b1}", "x\u{3b1}"];
static mut FOUND_TEXT: usize = 0;
static mut FOUND_LEAF: bool = true;
static mut SET: ([u8; 8], usize, bool) = ([0; 8], 0, false);
fn name(e: &Element) -> &'static str { if e.id == 0 { if unsafe { FOUND_LEAF } { "mi" } else { "mrow" } } else { "new" } }
fn is_leaf(e: Element) -> bool { e.id == 0 && unsafe { FOUND_LEAF } }
fn as_text(_e: Element) -> &'static str { TEXTS[unsafe { FOUND_TEXT }] }
fn create_mathml_element(_d: &Doc, _n: &str) -> Element { Element { id: 1 } }
fn copy_mathml(e: Element) -> Element { e }
fn mml_to_string(_e: &Element) -> String { String::from("m") }
impl Element {
    fn set_text(&self, t: &str) { let b = t.as_bytes(); assert!(b.len() <= 8); unsafe { let mut i = 0; while i < b.len() { SET.0[i] = b[i]; i += 1; } SET.1 = b.len(); SET.2 = true; } }
    fn append_child(&self, _e: Element) {}
}
#[cfg(kani)]
fn char_to_string<T: core::fmt::Display + ?Sized>(v: &T) -> String {
    assert!(core::mem::size_of_val(v) == 4, "only char -> String is stubbed here");
    let c: char = unsafe { *(v as *const T as *const char) };
    match c { '\u{3b1}' => String::from("\u{3b1}"), '\u{3b2}' => String::from("\u{3b2}"), '\u{3b3}' => String::from("\u{3b3}"), '1' => String::from("1"), '2' => String::from("2"), _ => String::from("x") }
}
fn arm(new_doc: Doc, found: Element, offset: usize) -> Result<Element> ARM_BLOCK
fn case(text: usize, offset: usize) -> u8 {
    unsafe { FOUND_TEXT = text; FOUND_LEAF = true; SET.2 = false; }
    let r = arm(Doc, Element { id: 0 }, offset);
    let t = TEXTS[text];
    let mut n = 0; for _c in t.chars() { n += 1; }
    if offset == 0 { return if r.is_ok() { 0 } else { 1 }; }
    if offset >= n { return if r.is_err() { 0 } else { 2 }; }
    if r.is_err() { return 3; }
    // the element handed to the braille rules holds exactly the offset-th character
    let mut k = 0; let mut want = ' ';
    for c in t.chars() { if k == offset { want = c; } k += 1; }
    let mut buf = [0u8; 4];
    let w = want.encode_utf8(&mut buf).as_bytes();
    let (sb, sl, set) = unsafe { SET };
    if !set || sl != w.len() { return 4; }
    let mut i = 0; while i < sl { if sb[i] != w[i] { return 4; } i += 1; }
    0
}
HARNESS(navigation_braille_offset_is_total, 10, [std::string::ToString::to_string => char_to_string]) {
    let k = sym::below(20);
    let code = match k {
CASE_ARMS
        _ => 0,
    };
    cover!(k == 1, "offset 1 into a three-letter Greek leaf reachable");
    cover!(k == 13, "offset past the end of a one-letter Greek leaf reachable");
    assert!(code != 1, "offset 0 fails");
    assert!(code != 2, "an offset past the last character is not reported as an error");
    assert!(code != 3, "an offset inside the leaf is reported as an error");
    assert!(code != 4, "the character handed to the braille rules is not the one at the offset");
}
"""


def api_navbraille(vals=None, out=None):
    res = mcprobe([("mathml", "<math id='m'><mrow id='r'><mi id='a'>αβγ</mi><mo id='p'>+</mo><mn id='n'>12</mn></mrow></math>"), ("setnav", "a 1"), "navbraille",
                   ("mathml", "<math id='m'><mi id='a'>α</mi></math>"), ("setnav", "a 1"), "navbraille"])
    bad = any(r[0] in ("PANIC", "ABORT") for r in res) or res[2][0] != "OK" or res[5][0] != "ERR"
    return bad, {"script": "set_navigation_node(a, 1) on <mi>alpha beta gamma</mi>; get_navigation_braille (must be the braille of beta); the same on <mi>alpha</mi> (must be an error)", "results": [res[2], res[5]]}


def navbraille_lemma(run):
    itf = slicer.Source.get("src/interface.rs")
    f = itf.find("fn get_navigation_braille")
    arm = itf.find_bracketed("Ok ( ( found , offset ) ) => {", within=f)[0]
    block = arm.text[arm.text.index("{"):]
    run.uses(slicer.Span(itf, arm.start, arm.end, "interface.rs::get_navigation_braille::Ok((found, offset)) arm"))
    arms = "\n".join("        %d => case(%d, %d)," % (t * 5 + o, t, o) for t in range(4) for o in range(5))
    crate = kani_run.Crate("c08navbr", NB_SHIM.replace("ARM_BLOCK", block).replace("CASE_ARMS", arms))
    run.bound("K-C08-m", "the Ok((found, offset)) arm of get_navigation_braille verbatim; leaf text in {alpha beta gamma, 12, alpha, x alpha} x offset 0..4 (20 solver-selected cases on literals)")
    run.assume("K-C08-m: sxd_document reduced to (leaf?, text index); set_text records its argument; char -> String stubbed by a table for the characters of the four texts; error text (bail!) not built")
    return crate, dict(id="K-C08-m.navigation_braille_offset_total", harness="navigation_braille_offset_is_total", api=lambda v, o: api_navbraille(),
                       role=lambda v, o: "offset-panics-or-wrong-char",
                       covers=["offset 1 into a three-letter Greek leaf reachable", "offset past the end of a one-letter Greek leaf reachable"],
                       claim="every (leaf text, character offset) yields Ok with exactly that character or Err past the end -- no panic, also for multi-byte characters")


# ======================================================================================================================
# K-C08-l: get_navigation_mathml_id / get_braille_position before any set_mathml (caller/callee contract)
#   callee: NavigationState::get_navigation_mathml_id unwraps the id of the math element when its stack is empty
#   caller: interface::get_navigation_mathml_id must not reach it in that situation with a math element that has no id
NAVID_SHIM = r"""
pub type Result<T> = core::result::Result<T, Error>;
#[derive(Debug)] pub struct Error;
macro_rules! bail { ($($t:tt)*) => { return Err(Error) }; }
fn enable_logs() { }
#[derive(Clone, Copy)] pub struct Element { has_id: bool, childless: bool }
pub struct Kids { n: usize }
impl Kids { fn is_empty(&self) -> bool { self.n == 0 } fn len(&self) -> usize { self.n } }
impl Element { fn children(&self) -> Kids { Kids { n: if self.childless { 0 } else { 1 } } } }
pub struct Package { math: Element }
pub struct Slot<T> { v: T }
impl<T> Slot<T> { fn borrow(&self) -> &T { &self.v } }
pub struct Key<T> { f: fn() -> T }
impl<T> Key<T> { fn with<R>(&self, f: impl FnOnce(&Slot<T>) -> R) -> R { f(&Slot { v: (self.f)() }) } }
static mut MATH: Element = Element { has_id: false, childless: true };
static mut STACK_EMPTY: bool = true;
fn the_package() -> Package { Package { math: unsafe { MATH } } }
fn the_nav_state() -> NavigationState { NavigationState { stack_empty: unsafe { STACK_EMPTY } } }
#[allow(non_upper_case_globals)] static MATHML_INSTANCE: Key<Package> = Key { f: the_package };
#[allow(non_upper_case_globals)] static NAVIGATION_STATE: Key<NavigationState> = Key { f: the_nav_state };
fn get_element(p: &Package) -> Element { p.math }
pub struct NavigationState { stack_empty: bool }
impl NavigationState {
    /// stand-in with the contract of the real method (navigate.rs): with an empty position stack it unwraps the id attribute of `mathml`
    fn get_navigation_mathml_id(&self, mathml: Element) -> (String, usize) {
        assert!(!self.stack_empty || mathml.has_id, "get_navigation_mathml_id reaches `mathml.attribute_value(\"id\").unwrap()` with a math element that has no id (no expression has been set)");
        (String::new(), 0)
    }
}
"""

NAVID_HARNESS = r"""
HARNESS(navigation_id_before_set_mathml, 4) {
    let set = sym::bool();                                  // has set_mathml succeeded at least once?
    // state invariant of the session: before the first set_mathml the package holds <math></math> (no id, no children) and the navigation stack is empty;
    // afterwards every element has an id (add_ids) and math has its one child
    unsafe { MATH = Element { has_id: set, childless: !set }; STACK_EMPTY = if set { sym::bool() } else { true }; }
    let r = get_navigation_mathml_id();                      // must not panic
    cover!(!set && r.is_err(), "no expression set is reported as an error reachable");
    cover!(set && r.is_ok(), "navigation id after set_mathml reachable");
    if set { assert!(r.is_ok(), "the navigation id is refused although an expression is set"); }
    core::mem::forget(r);
}
"""


def api_navid(vals=None, out=None):
    res = mcprobe(["navid", "brpos", ("mathml", "<math><mi>z</mi></math>"), "navid"])
    return any(r[0] == "PANIC" for r in res) or res[-1][0] != "OK", {"script": "fresh session: get_navigation_mathml_id, get_braille_position before any set_mathml; then set_mathml and again", "results": res}


def navid_lemma(run):
    itf = slicer.Source.get("src/interface.rs")
    nav = slicer.Source.get("src/navigate.rs")
    f = itf.find("fn get_navigation_mathml_id")
    callee = nav.find("impl NavigationState", "fn get_navigation_mathml_id")
    run.uses(f, callee)
    crate = kani_run.Crate("c08navid", NAVID_SHIM + f.text + NAVID_HARNESS)
    run.bound("K-C08-l", "interface::get_navigation_mathml_id verbatim, in a session where set_mathml has / has not succeeded yet (navigation stack empty or not)")
    run.assume("thread-local instances replaced by stand-ins; NavigationState::get_navigation_mathml_id replaced by its contract (panics iff its stack is empty and the math element has no id, as the real method's unwrap does); "
               "session invariant: before the first set_mathml the package is <math></math> without id")
    return crate, dict(id="K-C08-l.navigation_id_before_set_mathml", harness="navigation_id_before_set_mathml", api=lambda v, o: api_navid(),
                       role=lambda v, o: "navigation-id-without-expression", covers=["no expression set is reported as an error reachable", "navigation id after set_mathml reachable"],
                       claim="get_navigation_mathml_id (and get_braille_position, which calls it first) returns an error instead of panicking when no expression has been set")
