"""C03 — Row structure follows the operator dictionary (DESIGN.md §3 C03).
Z: invariants of operator-info.in (all entries) and of the special lazy_static operators, extracted from source.
K: the operator-selection kernels (find_operator_info, OperatorVersions::new, op_not_in_operator_dictionary, the type
   predicates) on an arbitrary well-formed alternative chain (symbolic forms and priorities)."""
import re

import kani_run
import slicer
import tables
from smt_run import smt_str

SHIM = r'''
use bitflags::bitflags;
use std::ptr::eq as ptr_eq;
'''

HARNESS = r'''
fn any_type() -> OperatorTypes {
    match sym::below(5) { 0 => OperatorTypes::PREFIX, 1 => OperatorTypes::INFIX, 2 => OperatorTypes::POSTFIX, 3 => OperatorTypes::LEFT_FENCE, _ => OperatorTypes::RIGHT_FENCE }
}
fn fix_of(o: &OperatorInfo) -> u8 { if o.is_prefix() { 1 } else if o.is_infix() { 2 } else { 4 } }
fn leak(o: Option<OperatorInfo>) -> &'static Option<OperatorInfo> { Box::leak(Box::new(o)) }
/// an arbitrary alternative chain of length n (1..=3) whose members answer pairwise different forms
/// (that every dictionary entry is such a chain is lemma Z-C03-a.distinct_forms / .has_fix_bit / .max_three)
fn any_chain(n: usize) -> &'static OperatorInfo {
    let c = OperatorInfo { op_type: any_type(), priority: 1 + sym::below(200), next: leak(None) };
    let b = OperatorInfo { op_type: any_type(), priority: 1 + sym::below(200), next: leak(if n >= 3 { Some(c) } else { None }) };
    let a = OperatorInfo { op_type: any_type(), priority: 1 + sym::below(200), next: leak(if n >= 2 { Some(b) } else { None }) };
    let r: &'static OperatorInfo = Box::leak(Box::new(a));
    if n >= 2 { let b = r.next.as_ref().unwrap(); sym::assume(fix_of(r) != fix_of(b));
        if n >= 3 { let c = b.next.as_ref().unwrap(); sym::assume(fix_of(c) != fix_of(r) && fix_of(c) != fix_of(b)); } }
    r
}

// K-C03-b.1: operator selection returns the requested form whenever the operator has it
HARNESS(find_operator_info_selects_form, 6) {
    let n = 1 + sym::below(3);
    let op = any_chain(n);
    let from_form = sym::bool();
    let t = match sym::below(3) { 0 => OperatorTypes::PREFIX, 1 => OperatorTypes::INFIX, _ => OperatorTypes::POSTFIX };
    let v = OperatorVersions::new(op);      // must not panic on a well-formed chain
    let has = if t == OperatorTypes::PREFIX { v.prefix } else if t == OperatorTypes::INFIX { v.infix } else { v.postfix };
    let r = find_operator_info(op, t, from_form);
    cover!(n == 3 && has.is_some() && !ptr_eq(has.unwrap(), op), "alternative (not the head) selected");
    cover!(has.is_none() && from_form, "forced form the operator does not have");
    match has {
        Some(h) => assert!(ptr_eq(r, h), "the alternative with the requested form was not selected"),
        None => {
            if from_form { assert!(ptr_eq(r, ILLEGAL_OPERATOR_INFO), "forced form without such an alternative must yield the illegal marker"); }
            else { assert!(ptr_eq(r, op), "unforced form without such an alternative must yield the head entry"); }
        }
    }
    let d = op_not_in_operator_dictionary(t);
    assert!(d.is_operator_type(t) && d.next.is_none(), "default operator info has the wrong form");
}

// K-C03-b.2: the type predicates are consistent: a fence is prefix (left) or postfix (right); exactly the documented bits
HARNESS(type_predicates_consistent, 6) {
    let o = OperatorInfo { op_type: any_type(), priority: 1, next: leak(None) };
    cover!(o.is_left_fence(), "left fence reachable");
    cover!(o.is_infix(), "infix reachable");
    assert!(o.is_prefix() || o.is_infix() || o.is_postfix(), "a documented operator type has no fix bit");
    if o.is_left_fence() { assert!(o.is_prefix() && o.is_fence() && !o.is_right_fence(), "left fence must act as a prefix operator"); }
    if o.is_right_fence() { assert!(o.is_postfix() && o.is_fence() && !o.is_left_fence(), "right fence must act as a postfix operator"); }
    // observation (not asserted, see DESIGN.md C03): is_fence() tests `op_type & (LEFT_FENCE|RIGHT_FENCE) != NONE`, i.e. also the PREFIX and
    // POSTFIX bits, so every prefix/postfix operator counts as a fence; no effect on the canonical MathML could be shown through the API
    assert!(o.is_operator_type(OperatorTypes::UNSPECIFIED), "UNSPECIFIED must match every operator");
}
'''


def parse_alts(val_toks):
    txt = " ".join(t.text for t in val_toks)
    return [(m.group(1), int(m.group(2))) for m in re.finditer(r"op_type : OperatorTypes : : (\w+) , priority : (\d+)", txt)]


def build(run):
    run.outside += ["the shift/reduce loop (canonicalize_mrows_in_mrow, shift_stack, reduce_stack): DOM code, DESIGN.md M2/M7",
                    "compute_type_from_position's is_function_name heuristics, chemistry and trig special cases",
                    "is_nary (pointer identity with lazy_static operators)"]
    c = slicer.Source.get("src/canonicalize.rs")
    opin = slicer.Source.get("src/operator-info.in")
    ls = c.find("macro lazy_static")
    bf = c.find("macro bitflags")
    run.uses(opin.whole(), bf)
    # ---- extraction --------------------------------------------------------------------------------------------
    flags = {m.group(1): int(m.group(2), 16) for m in re.finditer(r"const\s+(\w+)\s*=\s*0x([0-9a-fA-F]+)\s*;", bf.text)}
    for need in ("PREFIX", "INFIX", "POSTFIX", "LEFT_FENCE", "RIGHT_FENCE"):
        if need not in flags:
            raise slicer.SliceError("OperatorTypes::%s not found" % need)
    entries = [(k, parse_alts(v)) for k, v in tables.phf_entries(opin.src)]
    if len(entries) < 1000 or any(not a for _, a in entries):
        raise slicer.SliceError("operator-info.in: %d entries parsed, some without alternatives" % len(entries))
    specials = {}
    for n in ("LEFT_FENCEPOST", "IMPLIED_TIMES_HIGH_PRIORITY", "IMPLIED_SEPARATOR_HIGH_PRIORITY", "IMPLIED_CHEMICAL_BOND", "IMPLIED_PLUS_SLASH_HIGH_PRIORITY",
              "DEFAULT_OPERATOR_INFO_PREFIX", "DEFAULT_OPERATOR_INFO_INFIX", "DEFAULT_OPERATOR_INFO_POSTFIX", "ILLEGAL_OPERATOR_INFO"):
        sp = ls.find("static ref " + n)
        run.uses(sp)
        m = re.search(r"op_type:\s*OperatorTypes::(\w+),\s*priority:\s*(\d+)", sp.text)
        if not m:
            raise slicer.SliceError("cannot parse " + n)
        specials[n] = (m.group(1), int(m.group(2)))
    looked_up = {}
    for n in ("INVISIBLE_FUNCTION_APPLICATION", "IMPLIED_TIMES", "IMPLIED_INVISIBLE_COMMA", "IMPLIED_INVISIBLE_PLUS", "PLUS", "MINUS", "TIMES_SIGN"):
        sp = ls.find("static ref " + n)
        run.uses(sp)
        toks = [t for t in slicer.lex(sp.text) if t.kind == "str"]
        if len(toks) != 1:
            raise slicer.SliceError("cannot find the dictionary key of " + n)
        looked_up[n] = slicer.unquote(toks[0].text)
    run.bound("Z-C03-a", "all %d entries of operator-info.in with all their alternatives; the 9 literal and 7 looked-up special operators" % len(entries))

    # ---- SMT table ---------------------------------------------------------------------------------------------
    pre = ["(declare-fun nalts (Int) Int)", "(declare-fun ty (Int Int) Int)", "(declare-fun pr (Int Int) Int)", "(declare-fun key (Int) String)"]
    for i, (k, alts) in enumerate(entries):
        pre.append("(assert (= (nalts %d) %d))(assert (= (key %d) %s))" % (i, len(alts), i, smt_str(k)))
        for j, (t, p) in enumerate(alts):
            if t not in flags:
                raise slicer.SliceError("unknown OperatorTypes::%s in entry %r" % (t, k))
            pre.append("(assert (= (ty %d %d) %d))(assert (= (pr %d %d) %d))" % (i, j, flags[t], i, j, p))
    pre.append("(declare-const i Int)(declare-const k Int)(declare-const k2 Int)")
    pre.append("(assert (and (>= i 0) (< i %d) (>= k 0) (< k (nalts i)) (>= k2 0) (< k2 (nalts i))))" % len(entries))
    # fix(i,k): which slot OperatorVersions::new puts the alternative in: prefix if bit PREFIX, else infix if bit INFIX, else postfix
    P, I, S = flags["PREFIX"], flags["INFIX"], flags["POSTFIX"]
    pre.append("(define-fun bit ((x Int) (b Int)) Bool (= (mod (div x b) 2) 1))")
    pre.append("(define-fun fix ((x Int)) Int (ite (bit x %d) 1 (ite (bit x %d) 2 (ite (bit x %d) 4 0))))" % (P, I, S))
    pre = "\n".join(pre)
    dom = pre

    def w(kind):
        def f(m):
            k, alts = entries[m["i"]]
            return ("entry:" + k, "%s: operator %r has alternatives %r" % (kind, k, alts), {"key": k, "alternatives": alts})
        return f
    run.smt("Z-C03-a.has_fix_bit", pre + "\n(assert (= (fix (ty i k)) 0))", get=("i", "k"), witness=w("alternative with no prefix/infix/postfix bit (OperatorVersions::new panics)"),
            vacuity=dom, claim="every alternative of every entry has a PREFIX, INFIX or POSTFIX bit")
    run.smt("Z-C03-a.max_three_alternatives", pre + "\n(assert (> (nalts i) 3))", get=("i",), witness=w("more than 3 alternatives (find_operator_info searches only 3)"),
            vacuity=dom, claim="no entry has more than 3 alternatives")
    run.smt("Z-C03-a.distinct_forms", pre + "\n(assert (distinct k k2))\n(assert (= (fix (ty i k)) (fix (ty i k2))))", get=("i", "k", "k2"),
            witness=w("two alternatives answer the same form (one is unreachable)"), vacuity=dom + "\n(assert (distinct k k2))",
            claim="the alternatives of one operator answer pairwise different forms")
    lo, hi = specials["LEFT_FENCEPOST"][1], specials["ILLEGAL_OPERATOR_INFO"][1]
    run.smt("Z-C03-a.priority_range", pre + "\n(assert (or (<= (pr i k) %d) (>= (pr i k) %d)))" % (lo, hi), get=("i", "k"),
            witness=w("priority collides with the stack bottom (%d) or the operand marker (%d)" % (lo, hi)), vacuity=dom,
            claim="every priority lies strictly between LEFT_FENCEPOST (%d) and ILLEGAL_OPERATOR_INFO (%d)" % (lo, hi))
    run.smt("Z-C03-a.fences_have_fix", pre + "\n(assert (or (and (= (ty i k) %d) (not (bit (ty i k) %d))) (and (= (ty i k) %d) (not (bit (ty i k) %d)))))" % (
        flags["LEFT_FENCE"], P, flags["RIGHT_FENCE"], S), get=("i", "k"), witness=w("fence without prefix/postfix bit"), vacuity=dom,
        claim="LEFT_FENCE carries the PREFIX bit, RIGHT_FENCE the POSTFIX bit")

    # matched fences: an opening fence and its mirror image close each other, so they must sit at the same priority (a close fence reduces
    # the stack down to ITS priority; with a different priority the row opened by its partner is not the one that gets closed)
    import unicodedata
    idx = {k: i for i, (k, _) in enumerate(entries)}

    def mirror(k):
        if len(k) != 1:
            return None
        if k in "([{":
            return {"(": ")", "[": "]", "{": "}"}[k]
        try:
            nm = unicodedata.name(k)
            return unicodedata.lookup(nm.replace("LEFT", "RIGHT")) if "LEFT" in nm else None
        except (ValueError, KeyError):
            return None
    pairs = [(i, idx[mirror(k)]) for i, (k, _) in enumerate(entries) if mirror(k) in idx]
    mir = "(declare-fun mirror (Int) Int)\n" + "\n".join("(assert (= (mirror %d) %d))" % (i, dict(pairs).get(i, -1)) for i in range(len(entries)))
    dom_m = pre + "\n" + mir + "\n(declare-const j Int)(assert (= j (mirror i)))(assert (>= j 0))(assert (and (>= k2 0) (< k2 (nalts j))))(assert (= (ty i k) %d))(assert (= (ty j k2) %d))" % (flags["LEFT_FENCE"], flags["RIGHT_FENCE"])

    def w_pair(m):
        ki, kj = entries[m["i"]][0], entries[m["j"]][0]
        return ("fence-pair:" + ki + kj, "the fences %r (%r) and %r (%r) have different priorities: %r closes a different row than %r opened" % (ki, entries[m["i"]][1], kj, entries[m["j"]][1], kj, ki), {"open": ki, "close": kj})
    run.smt("Z-C03-a.fence_pairs_agree", dom_m + "\n(assert (distinct (pr i k) (pr j k2)))", get=("i", "j", "k", "k2"), witness=w_pair, vacuity=dom_m,
            claim="for the %d fence pairs (ASCII brackets and Unicode LEFT x / RIGHT x characters) the opening and the closing fence have the same priority" % len(pairs))

    # special operators: looked-up keys exist, have the stated form, and the ad-hoc priorities stand in the stated relation
    idx = {k: i for i, (k, _) in enumerate(entries)}
    facts = []
    for n, k in looked_up.items():
        facts.append("(declare-const %s Int)" % n)
        facts.append("(assert (= %s %d))" % (n, idx.get(k, -1)))
    for n, (t, p) in specials.items():
        facts.append("(define-fun %s_pr () Int %d)(define-fun %s_ty () Int %d)" % (n, p, n, flags[t]))
    spre = pre + "\n" + "\n".join(facts) + "\n"
    conds = {
        "invisible_operators_exist_and_are_infix": "(and " + " ".join("(>= %s 0) (bit (ty %s 0) %d)" % (n, n, I) for n in
                                                                         ("INVISIBLE_FUNCTION_APPLICATION", "IMPLIED_TIMES", "IMPLIED_INVISIBLE_COMMA", "IMPLIED_INVISIBLE_PLUS")) + ")",
        "plus_minus_infix_head_prefix_alternative": "(and (>= PLUS 0) (>= MINUS 0) (bit (ty PLUS 0) %d) (bit (ty MINUS 0) %d) (>= (nalts MINUS) 2) (bit (ty MINUS 1) %d) (>= (nalts PLUS) 2) (bit (ty PLUS 1) %d) (= (pr PLUS 0) (pr MINUS 0)))" % (I, I, P, P),
        "implied_times_high_above_function_application": "(> IMPLIED_TIMES_HIGH_PRIORITY_pr (pr INVISIBLE_FUNCTION_APPLICATION 0))",
        "mixed_fraction_plus_above_invisible_plus": "(> IMPLIED_PLUS_SLASH_HIGH_PRIORITY_pr (pr IMPLIED_INVISIBLE_PLUS 0))",
        "times_and_invisible_times_same_priority": "(and (>= TIMES_SIGN 0) (= (pr TIMES_SIGN 0) (pr IMPLIED_TIMES 0)) (> (pr IMPLIED_TIMES 0) (pr PLUS 0)) (> (pr INVISIBLE_FUNCTION_APPLICATION 0) (pr IMPLIED_TIMES 0)))",
        "adhoc_priorities_below_operand_marker": "(and (< IMPLIED_SEPARATOR_HIGH_PRIORITY_pr ILLEGAL_OPERATOR_INFO_pr) (< IMPLIED_CHEMICAL_BOND_pr ILLEGAL_OPERATOR_INFO_pr) (< IMPLIED_TIMES_HIGH_PRIORITY_pr ILLEGAL_OPERATOR_INFO_pr) (= LEFT_FENCEPOST_pr 0))",
        "defaults_have_their_form": "(and (bit DEFAULT_OPERATOR_INFO_PREFIX_ty %d) (bit DEFAULT_OPERATOR_INFO_INFIX_ty %d) (bit DEFAULT_OPERATOR_INFO_POSTFIX_ty %d) (bit ILLEGAL_OPERATOR_INFO_ty %d))" % (P, I, S, I),
    }
    for name, cond in conds.items():
        run.smt("Z-C03-a." + name, spre + "(assert (not %s))" % cond, get=tuple(looked_up),
                witness=lambda m, name=name: ("special:" + name, "special operator invariant '%s' violated: looked-up=%r literal=%r" % (name, looked_up, specials), {}),
                claim=name.replace("_", " "))

    # ---- K: selection kernels on arbitrary well-formed chains ---------------------------------------------------
    fo = c.find("fn find_operator")
    items = [c.find("struct OperatorInfo"), bf, c.find("struct OperatorVersions"), c.find("impl OperatorVersions"),
             fo.find("fn find_operator_info"), fo.find("fn op_not_in_operator_dictionary")]
    impl = c.find("impl OperatorInfo")
    meths = [impl.find("fn " + m) for m in ("is_prefix", "is_infix", "is_postfix", "is_left_fence", "is_right_fence", "is_fence", "is_operator_type")]
    run.uses(*items, *meths)
    plain_statics = []
    for n in ("DEFAULT_OPERATOR_INFO_PREFIX", "DEFAULT_OPERATOR_INFO_INFIX", "DEFAULT_OPERATOR_INFO_POSTFIX", "ILLEGAL_OPERATOR_INFO"):
        plain_statics.append(ls.find("static ref " + n).text.replace("static ref", "static", 1))
    body = SHIM + "\n".join(i.text for i in items) + "\nimpl OperatorInfo {\n" + "\n".join(m.text for m in meths) + "\n}\n" + "\n".join(plain_statics) + HARNESS
    body = body.replace("#[derive(Clone, Debug)]\nstruct OperatorInfo", "#[derive(Clone)]\nstruct OperatorInfo").replace("#[derive(Debug)]\nstruct OperatorVersions", "struct OperatorVersions")
    crate = kani_run.Crate("c03ops", body, deps={"bitflags": '"2.5"'})
    run.bound("K-C03-b", "alternative chains of length 1..3, each alternative any of {PREFIX, INFIX, POSTFIX, LEFT_FENCE, RIGHT_FENCE} with pairwise different forms (the invariant Z-C03-a proves for the table), priorities 1..200; requested form any of 3; form-attribute flag both")
    run.assume("the four default/illegal lazy_static operators are compiled as plain statics (same initialiser text); bitflags is the real crate",
               "chains are built with Box::leak (concrete sizes)")
    run.kani(crate, [
        dict(id="K-C03-b.find_operator_info", harness="find_operator_info_selects_form", covers=["alternative (not the head) selected", "forced form the operator does not have"],
             role=lambda v, o: "selection", claim="find_operator_info returns the alternative of the requested form iff it exists; else ILLEGAL (forced) / head (unforced); OperatorVersions::new total"),
        dict(id="K-C03-b.type_predicates", harness="type_predicates_consistent", covers=["left fence reachable", "infix reachable"], role=lambda v, o: "types",
             claim="fence/prefix/infix/postfix predicates are mutually consistent on the five documented operator types"),
    ], timeout=600)
