"""C07 — Braille output uses only the target alphabet (see DESIGN.md §3 C07)."""
import kani_run
from checks import braille_kernels as bk


def build(run):
    run.outside += ["what the rule files emit (YAML + XPath interpreter)", "non-emptiness of the result",
                    "space trimming regex chains as transducers"]
    # ---- K-C07-d: a braille-position query leaves BrailleNavHighlight as the caller set it (so 'Off' stays off) -- kernel shared with C20 ----
    from checks import C20
    crate_r, lemma_r = C20.restore_lemma(run)
    crate_r = kani_run.Crate("c07restore", crate_r._args["body"])
    run.kani(crate_r, [dict(lemma_r, id="K-C07-d.query_keeps_highlight_setting")], timeout=600)
    # ---- K-C07-b: highlight bit kernels ------------------------------------------------------
    c = bk.crate(run, "c07hl")
    run.bound("K-C07-b", "symbolic char over all 0x110000 scalar values (no bound); bool flag symbolic")
    run.assume("native replay of Kani counterexamples uses the real std; no stubs in this crate")
    lemmas = [
        dict(id="K-C07-b.marked_is_recognised", harness="hl_marked_is_recognised",
             covers=["ordinary cell reachable", "full cell reachable"], role=bk.role_cell, api=bk.api_highlight_positions,
             claim="for every braille cell c: is_highlighted(add_dots(c)) and is_highlighted(highlight(c)); recognised <=> dots 7+8"),
        dict(id="K-C07-b.unhighlight_inverse", harness="hl_unhighlight_inverse",
             covers=["six-dot cell reachable", "already highlighted cell reachable"], role=bk.role_cell, api=bk.api_highlight_positions,
             claim="is_highlighted(c) <=> c has dots 7+8; unhighlight(highlight(c)) = c on six-dot cells; unhighlight clears dots 7-8"),
        dict(id="K-C07-b.valid_scalar", harness="hl_valid_scalar_any_char",
             covers=["non-braille char reachable", "astral char reachable"], role=bk.role_cell,
             claim="for every char: results are valid scalar values, stay in the braille block, identity outside it"),
    ]
    run.kani(c, lemmas)
    crate_n, lemma_n = nav_lemma(run)
    run.kani(crate_n, [lemma_n], timeout=300)
    crate_h, lemma_h = highlight_pass_lemma(run)
    run.kani(crate_h, [lemma_h], timeout=300)
    indicator_sync(run)


# ======================================================================================================================
# Z-C07-a: indicator class <-> replacement table <-> rule alphabet synchronisation, per braille code
import re as _re

import rxsmt as _rx
import slicer as _sl
import tables as _tb
from framework import mcprobe as _mcprobe
from smt_run import smt_str as _s

CODES = {"Nemeth": "nemeth_cleanup", "UEB": "ueb_cleanup", "Vietnam": "vietnam_cleanup", "CMU": "cmu_cleanup", "Swedish": "swedish_cleanup", "Finnish": "finnish_cleanup"}
RULE_DIRS = {"Nemeth": "Nemeth", "UEB": "UEB", "Vietnam": "Vietnam", "CMU": "CMU", "Swedish": "Swedish", "Finnish": None}


def _yaml_entries(path):
    """(key, [emitted strings]) per entry of a unicode yaml file (regex extraction; PyYAML rejects some of the files)."""
    cur, out = None, []
    for line in open(path, encoding="utf-8").read().splitlines():
        if line.lstrip().startswith("#"):
            continue
        m = _re.match(r'^\s*-\s*"((?:\\.|[^"\\])+)"\s*:(.*)$', line)
        rest = line
        if m:
            cur = [m.group(1), []]
            out.append(cur)
            rest = m.group(2)
        if cur is None:
            continue
        for mm in _re.finditer(r'\b(?:t|ct|ot)\s*:\s*"((?:\\.|[^"\\])*)"', rest):
            cur[1].append(mm.group(1))
    un = lambda s: _re.sub(r'\\u([0-9a-fA-F]{4})|\\x([0-9a-fA-F]{2})|\\(.)', lambda m: chr(int(m.group(1) or m.group(2), 16)) if (m.group(1) or m.group(2)) else m.group(3), s)
    return [(un(k), [un(t) for t in ts]) for k, ts in out]


def _is_cell(ch):
    return 0x2800 <= ord(ch) <= 0x28FF


def indicator_sync(run):
    import os
    src = _sl.Source.get("src/braille.rs")
    all_ri = src.find_all("static ref REPLACE_INDICATORS")
    fn_spans = {code: src.find("fn " + fn) for code, fn in CODES.items()}
    module_level = [sp for sp in all_ri if not any(f.start <= sp.start < f.end for f in fn_spans.values())]
    if len(module_level) != 1:
        raise _sl.SliceError("expected exactly one module-level REPLACE_INDICATORS, found %d" % len(module_level))
    repo = os.environ.get("VERIF_REPO", "/repo")
    run.bound("Z-C07-a", "6 cell-based codes; every (character, emitted string) pair of Rules/Braille/<code>/unicode.yaml and unicode-full.yaml; every key/value of the code's *_INDICATOR_REPLACEMENTS; every code point for the class")
    run.assume("the alphabet a code's rules can emit is over-approximated by the t:/ct:/ot: strings of its two unicode yaml files (structure rules in *_Rules.yaml are not parsed); "
               "leak candidates are confirmed through get_braille on the character that emits them before they are reported")
    for code, fn in fn_spans.items():
        own = [sp for sp in all_ri if fn.start <= sp.start < fn.end]
        ri = own[0] if own else module_level[0]
        toks = [t for t in _sl.lex(ri.text) if t.kind == "str"]
        pattern = _sl.unquote(toks[0].text)
        ast, _, _ = _rx.parse(pattern)
        node = ast
        while node[0] in ("cat", "group"):
            node = node[1][0] if node[0] == "cat" else node[1]
        if node[0] != "class":
            raise _sl.SliceError("REPLACE_INDICATORS of %s is not a single character class: %r" % (code, pattern))
        cls_ranges = node[1]
        m = _re.search(r"(\w+_INDICATOR_REPLACEMENTS)\s*\.\s*get", fn.text)
        if not m:
            raise _sl.SliceError("no *_INDICATOR_REPLACEMENTS lookup in %s" % CODES[code])
        tname = m.group(1)
        try:
            tspan = fn.find("static " + tname)
        except _sl.SliceError:
            tspan = src.find("static " + tname)
        table = _tb.string_map(tspan)
        prefkeys = set(_re.findall(r'"(.)"\s*=>\s*&\w+\s*,', fn.text))
        run.uses(ri, tspan, fn)
        cls_smt = _rx.cls_smt(cls_ranges)
        keys_or = "(or %s)" % " ".join("(= c %s)" % _s(k) for k in list(table) + sorted(prefkeys))
        # ---- L2: live table values are braille cells -----------------------------------------------------------------------
        cells = '(re.* (re.range "\\u{2800}" "\\u{28ff}"))'
        pairs = "(or %s)" % " ".join("(and (= c %s) (= v %s))" % (_s(k), _s(v)) for k, v in table.items())
        pk = " ".join("(distinct c %s)" % _s(k) for k in sorted(prefkeys)) or "true"
        run.smt("Z-C07-a.%s.table_values_are_cells" % code, "(declare-const c String)(declare-const v String)\n(assert %s)\n(assert (str.in_re c %s))\n(assert (and %s))\n(assert (not (str.in_re v %s)))" % (pairs, cls_smt, pk, cells),
                get=("c", "v"), witness=lambda mo, code=code: ("table-value:%s:%s" % (code, mo["c"]), "%s replaces indicator %r by %r, which is not braille" % (code, mo["c"], mo["v"]), {}),
                vacuity="(declare-const c String)(declare-const v String)\n(assert %s)\n(assert (str.in_re c %s))" % (pairs, cls_smt),
                claim="every replacement the indicator pass can insert (keys that the class matches, preference-backed keys aside) consists of braille cells only")
        # ---- the alphabet the code's rules emit ----------------------------------------------------------------------------
        d = RULE_DIRS[code]
        if d is None:
            continue
        emitted = {}
        for f in ("unicode.yaml", "unicode-full.yaml"):
            for key, ts in _yaml_entries(os.path.join(repo, "Rules", "Braille", d, f)):
                for t in ts:
                    for ch in t:
                        if not _is_cell(ch):
                            emitted.setdefault(ch, key)
        if len(emitted) < 5:
            raise _sl.SliceError("only %d indicator letters found in the %s unicode files" % (len(emitted), code))
        em_or = "(or %s)" % " ".join("(= c %s)" % _s(ch) for ch in emitted)

        def braille_of(key, code=code):
            ch = key[0]
            tag = "mn" if ch.isdigit() else ("mi" if ch.isalpha() else "mo")
            res = _mcprobe([("pref", "BrailleCode " + code), ("mathml", "<math><%s>&#x%X;</%s></math>" % (tag, ord(ch), tag)), ("braille", "")])
            return res[-1]

        # ---- L1: no emitted non-braille char escapes the class (it would reach the caller as is) ---------------------------
        def w_leak(mo, code=code, emitted=emitted):
            c = mo["c"]
            st, br = braille_of(emitted[c])
            if st != "OK" or all(_is_cell(x) for x in br):
                return None
            return ("leak:%s:%s" % (code, c), "%s: the rules emit %r for %r, REPLACE_INDICATORS does not match it, get_braille returns %r" % (code, c, emitted[c], br), {"braille": br})
        blocked = []
        for _ in range(8):
            q = "(declare-const c String)\n(assert %s)\n(assert (not (str.in_re c %s)))\n" % (em_or, cls_smt) + "".join("(assert (distinct c %s))\n" % _s(b) for b in blocked)
            n0 = len(run.inconclusive)
            r = run.smt("Z-C07-a.%s.emitted_alphabet_in_class" % code + ("[candidates filtered: %s]" % "".join(blocked) if blocked else ""), q, get=("c",),
                        witness=lambda mo: w_leak(mo) or ("__filtered__", "", {}),
                        claim="every non-braille character the %s unicode files emit is matched by REPLACE_INDICATORS (or is consumed earlier: candidates are confirmed through get_braille)" % code) \
                if False else None
            import smt_run as _sr
            rr = _sr.solve(q, get=("c",), timeout=60)
            run.queries += 1
            run.solver_time += rr["time_s"]
            lid = "Z-C07-a.%s.emitted_alphabet_in_class" % code
            if rr["status"] == "unsat":
                run.nontrivial += 1
                run.holds(lid, note="(unsat; %d emitted letters%s)" % (len(emitted), "; candidates consumed by earlier passes, not leaking through the API: %r" % blocked if blocked else ""))
                break
            if rr["status"] != "sat":
                run.inconclusive_(lid, "solver answered %s" % rr["status"])
                break
            w = w_leak(rr["model"])
            if w is None:
                blocked.append(rr["model"]["c"])
                continue
            run.nontrivial += 1
            run.violated(lid, w[0], w[1], dict(w[2], model=rr["model"]))
            break
        else:
            run.holds("Z-C07-a.%s.emitted_alphabet_in_class" % code, note="(8 candidates, none leaks through the API: %r)" % blocked)
        # ---- L3: what the class matches among the emitted letters has a replacement (else it is silently deleted) ---------
        def w_del(mo, code=code, pattern=pattern, table=table, prefkeys=prefkeys):
            c = mo["c"]
            if _rx.captures_real(pattern, c) is None or c in table or c in prefkeys:
                return None
            return ("deleted:%s:%s" % (code, c), "%s: REPLACE_INDICATORS matches the emitted indicator %r but %s has no entry for it: it is deleted from the output (\"not in sync\")" % (code, c, tname), {})
        # observation only (not a verdict of C07, whose statement is about the output alphabet): an emitted indicator letter that the class matches
        # but the table does not know is deleted together with its meaning ("REPLACE_INDICATORS and ... are not in sync")
        import smt_run as _sr2
        ro = _sr2.solve("(declare-const c String)\n(assert %s)\n(assert (str.in_re c %s))\n(assert (not %s))" % (em_or, cls_smt, keys_or), get=("c",), timeout=30)
        run.queries += 1
        run.solver_time += ro["time_s"]
        run.sample({"observation": "Z-C07-a.%s.class_members_have_replacements" % code, "status": ro["status"],
                    "meaning": ("indicator %r is emitted by the %s rules, matched by REPLACE_INDICATORS, but has no entry in %s: it is deleted from the output" % (ro["model"].get("c"), code, tname))
                    if ro["status"] == "sat" else "every matched emitted indicator has a replacement"})


# ======================================================================================================================
# K-C07-e: the highlight pass (highlight_braille_string) adds dots 7-8 to cells; the only other character it may rewrite is the Nemeth
#          baseline indicator 'b' -> U+1D44F, which only the Nemeth clean-up knows -- so only when the code is Nemeth
HL_SHIM = r"""
static mut CODE: usize = 0;
const CODES: [&str; 4] = ["Nemeth", "UEB", "CMU", "Vietnam"];
pub struct PM;
impl PM { fn pref_to_string(&self, _n: &str) -> String { String::from(CODES[unsafe { CODE }]) } }
pub struct Holder;
impl Holder { fn borrow(&self) -> PM { PM } }
pub struct PreferenceManager;
impl PreferenceManager { fn get() -> Holder { Holder } }
ADD_DOTS_FN
fn run_code(code: usize, ch: char) -> char {
    unsafe { CODE = code; }
    HACK_STMT
    CALL_EXPR
}
HARNESS(highlight_pass_rewrites_only_cells, 12) {
    let ch = sym::ch();
    let code = sym::below(4);
    let r = match code { 0 => run_code(0, ch), 1 => run_code(1, ch), 2 => run_code(2, ch), _ => run_code(3, ch) };
    let c = ch as u32;
    cover!(code == 0 && ch == 'b', "Nemeth baseline indicator reachable");
    cover!(code == 1 && ch == 'b', "the letter b under UEB reachable");
    if c >= 0x2800 && c <= 0x28FF { assert!(r as u32 == (c | 0xC0), "a braille cell is not given dots 7-8"); }
    else if code == 0 && ch == 'b' { assert!(r == 'b' || r == '\u{1D44F}', "Nemeth baseline indicator rewritten to something the clean-up does not know"); }
    else { assert!(r == ch, "the highlight pass rewrites a character that is not a braille cell: an internal letter the code's clean-up does not know reaches the caller"); }
}
"""


def api_hl(vals=None, out=None):
    res = _mcprobe([("pref", "BrailleCode UEB"), ("pref", "BrailleNavHighlight EndPoints"), ("mathml", "<math><mi>x</mi><mo>=</mo><mtext id='q'>\"a\"</mtext></math>"), ("braille", "q"), ("pref", "BrailleCode Nemeth")])
    br = res[3][1] if res[3][0] == "OK" else ""
    bad = res[3][0] != "OK" or any(not (0x2800 <= ord(c) <= 0x28FF) for c in br)
    return bad, {"script": "UEB, BrailleNavHighlight=EndPoints, x = <mtext id='q'>\"a\"</mtext>; get_braille('q') must consist of braille cells only", "braille": res[3]}


def highlight_pass_lemma(run):
    import re
    import kani_run as _kr
    sp = _sl.Source.get("src/speech.rs")
    hb = sp.find("fn highlight_braille_string")
    add = hb.find("fn add_dots_to_braille_char")
    run.uses(add)
    sig = re.search(r"fn add_dots_to_braille_char\s*\(([^)]*)\)", add.text).group(1)
    nparams = len([x for x in sig.split(",") if x.strip()])
    try:
        hack = sp.find_stmt("let baseline_indicator_hack =", within=hb)
        run.uses(hack)
        hack_text = hack.text
    except _sl.SliceError:
        hack_text = ""
    if nparams == 2 and hack_text:
        call = "add_dots_to_braille_char(ch, baseline_indicator_hack)"
    elif nparams == 1:
        call = "add_dots_to_braille_char(ch)"
    else:
        raise _sl.SliceError("add_dots_to_braille_char: cannot tell how highlight_braille_string calls it (parameters %r)" % sig)
    crate = _kr.Crate("c07pass", HL_SHIM.replace("ADD_DOTS_FN", add.text).replace("HACK_STMT", hack_text).replace("CALL_EXPR", call))
    run.bound("K-C07-e", "add_dots_to_braille_char verbatim with the statement that decides its baseline-indicator flag; every char x BrailleCode in {Nemeth, UEB, CMU, Vietnam}")
    run.assume("K-C07-e: PreferenceManager reduced to the BrailleCode preference (solver-selected among four literal codes)")
    return crate, dict(id="K-C07-e.highlight_pass_rewrites_only_cells", harness="highlight_pass_rewrites_only_cells", api=lambda v, o: api_hl(),
                       role=lambda v, o: "highlight-pass-introduces-letter", covers=["Nemeth baseline indicator reachable", "the letter b under UEB reachable"],
                       claim="for every char and code: cells get dots 7-8, every other char is unchanged, except the Nemeth baseline indicator under Nemeth")


# ======================================================================================================================
# K-C07-c: with no navigation node given (empty id) the matched result is never highlighted / marked
NAV_HARNESS = r'''
use std::cell::RefCell;
use core::marker::PhantomData;
pub type Result<T> = core::result::Result<T, ()>;
RULES_FOR_ENUM
pub struct Prefs;
impl Prefs { fn pref_to_string(&self, _n: &str) -> String { String::new() } }
pub struct SpeechRules { name: RulesFor, pref_manager: RefCell<Prefs> }
pub struct SpeechRulesWithContext<'c, 's: 'c, 'm: 'c> { nav_node_id: &'m str, speech_rules: &'s SpeechRules, p: PhantomData<&'c ()> }
pub trait TreeOrString<'c, 'm: 'c, T> { fn highlight_braille(s: T, style: String) -> T; fn mark_nav_speech(s: T) -> T; }
pub struct Out { touched: bool }
impl<'c, 'm: 'c> TreeOrString<'c, 'm, Out> for Out {
    fn highlight_braille(_s: Out, style: String) -> Out { core::mem::forget(style); Out { touched: true } }
    fn mark_nav_speech(_s: Out) -> Out { Out { touched: true } }
}
#[derive(Clone, Copy)] pub struct Element<'c> { id: Option<&'static str>, p: PhantomData<&'c ()> }
impl<'c> Element<'c> { fn attribute_value(&self, _n: &str) -> Option<&'static str> { self.id } }
impl<'c, 's: 'c, 'm: 'c> SpeechRulesWithContext<'c, 's, 'm> {
    NAV_FN
    /// the success arm of find_match, verbatim
    fn matched<T: TreeOrString<'c, 'm, T>>(&self, s: T, mathml: Element<'c>) -> Result<Option<T>> {
        ARM_BODY
    }
}
// K-C07-c
HARNESS(no_nav_node_no_highlight, 6) {
    let rules = SpeechRules { name: if sym::bool() { RulesFor::Braille } else { RulesFor::Speech }, pref_manager: RefCell::new(Prefs) };
    let nav_given = sym::bool();
    let ctx = SpeechRulesWithContext { nav_node_id: if nav_given { "n1" } else { "" }, speech_rules: &rules, p: PhantomData };
    // the element may carry no id, an ordinary id, the navigation id, or an (author-supplied) EMPTY id
    let el = Element { id: match sym::below(4) { 0 => None, 1 => Some("n1"), 2 => Some("zz"), _ => Some("") }, p: PhantomData };
    let r = ctx.matched(Out { touched: false }, el).unwrap().unwrap();
    cover!(r.touched, "highlighted node reachable");
    cover!(!nav_given && el.id.is_some() && el.id.unwrap().is_empty(), "element with an empty id and no navigation node reachable");
    if !nav_given { assert!(!r.touched, "braille / speech of a node is highlighted although no navigation node was given"); }
    else { assert!(r.touched == (el.id.is_some() && el.id.unwrap().len() == 2 && el.id.unwrap().as_bytes()[0] == b'n'), "the wrong node is highlighted"); }
}
'''


def nav_lemma(run):
    sp = _sl.Source.get("src/speech.rs")
    fm = sp.find("fn find_match")
    arm = sp.find_arm("Ok ( s ) =>", within=fm)
    body = arm.text
    nav = sp.find("fn nav_node_adjust")
    enum = sp.find("enum RulesFor")
    run.uses(arm, nav, enum)
    import kani_run as _kr
    crate = _kr.Crate("c07nav", NAV_HARNESS.replace("RULES_FOR_ENUM", enum.text).replace("NAV_FN", nav.text).replace("ARM_BODY", body))
    run.bound("K-C07-c", "navigation id given / not given x rule set {Braille, Speech} x element id in {none, the navigation id, another id, the empty string}")
    run.assume("SpeechRules / PreferenceManager / Element / TreeOrString reduced to what nav_node_adjust and the success arm of find_match use; highlighting itself is decided by K-C07-b")

    def api(vals, out):
        res = _mcprobe([("pref", "BrailleCode UEB"), ("mathml", "<math><mi id=''>x</mi><mo>+</mo><mn>1</mn></math>"), ("braille", "")])
        bad = res[-1][0] != "OK" or any(0x28C0 <= ord(c) <= 0x28FF for c in res[-1][1])
        return bad, {"script": "element with id='' ; get_braille('') (no navigation node): no cell may carry dots 7-8", "braille": res[-1]}
    return crate, dict(id="K-C07-c.no_nav_node_no_highlight", harness="no_nav_node_no_highlight", api=api, role=lambda v, o: "highlight-without-nav-node",
                       covers=["highlighted node reachable", "element with an empty id and no navigation node reachable"],
                       claim="nav id empty => result untouched for every element id (also id=''); nav id given => exactly the element with that id is highlighted")
