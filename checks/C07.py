"""C07 — Braille output uses only the target alphabet (see DESIGN.md §3 C07)."""
from checks import braille_kernels as bk


def build(run):
    run.outside += ["what the rule files emit (YAML + XPath interpreter)", "non-emptiness of the result",
                    "space trimming regex chains as transducers"]
    # ---- K-C07-b: highlight bit kernels ------------------------------------------------------
    c = bk.crate(run, "c07hl")
    run.bound("K-C07-b", "symbolic char over all 0x110000 scalar values (no bound); bool flag symbolic")
    run.assume("native replay of Kani counterexamples uses the real std; no stubs in this crate")
    lemmas = [
        dict(id="K-C07-b.marked_is_recognised", harness="hl_marked_is_recognised",
             covers=["ordinary cell reachable", "full cell reachable"], role=bk.role_cell, api=bk.api_highlight_positions,
             claim="for every braille cell c: is_highlighted(add_dots(c)) and is_highlighted(highlight(c)); recognised <=> dots 7+8"),
        dict(id="K-C07-b.unhighlight_inverse", harness="hl_unhighlight_inverse",
             covers=["six-dot cell reachable", "already highlighted cell reachable"], role=bk.role_cell, api=bk.api_highlight_positions,
             claim="is_highlighted(c) <=> c has dots 7+8; unhighlight(highlight(c)) = c on six-dot cells; unhighlight clears dots 7-8"),
        dict(id="K-C07-b.valid_scalar", harness="hl_valid_scalar_any_char",
             covers=["non-braille char reachable", "astral char reachable"], role=bk.role_cell,
             claim="for every char: results are valid scalar values, stay in the braille block, identity outside it"),
    ]
    run.kani(c, lemmas)
