"""C02 — Returned MathML is well-formed canonical MathML (DESIGN.md §3 C02).
Engine K on (a) the per-character escaping kernel of pretty_print::handle_special_chars (symbolic char), (b) the arity check of
assure_mathml (symbolic element kind and child count) against the MathML 3 arity table, (c) clean_mmultiscripts over a small model DOM."""
import kani_run
import prelude
import slicer
from framework import mcprobe

ESC_HARNESS = r'''
fn escape_char(ch: char) -> String {
    MATCH_EXPR
}
// K-C02-a: every char is serialised so that an XML parser gives back exactly that char, and never as raw markup
HARNESS(special_chars_escaped, 12) {
    let ch = sym::ch();
    let out = escape_char(ch);
    let b = out.as_bytes();
    cover!(ch == '<', "less-than reachable");
    cover!(ch == '\u{2062}', "invisible times reachable");
    cover!((ch as u32) > 0xFFFF, "astral char reachable");
    let want: Option<&[u8]> = match ch { '<' => Some(b"&lt;"), '>' => Some(b"&gt;"), '&' => Some(b"&amp;"), '"' => Some(b"&quot;"), '\'' => Some(b"&apos;"),
        '\u{2061}' => Some(b"&#x2061;"), '\u{2062}' => Some(b"&#x2062;"), '\u{2063}' => Some(b"&#x2063;"), '\u{2064}' => Some(b"&#x2064;"), _ => None };
    match want {
        Some(w) => assert!(b == w, "special character is not written as its XML reference"),
        None => {
            let mut tmp = [0u8; 4];
            let e = ch.encode_utf8(&mut tmp).as_bytes();
            assert!(b.len() == e.len(), "ordinary character changed length");
            let mut i = 0;
            while i < e.len() { assert!(b[i] == e[i], "ordinary character changed"); i += 1; }
        }
    }
    core::mem::forget(out);
}
'''

ARITY_SHIM = r'''
pub type Result<T> = core::result::Result<T, ()>;
macro_rules! bail { ($($t:tt)*) => { return Err(()) }; }
#[derive(Clone, Copy)] pub struct Child { is_prescripts: bool }
#[derive(Clone, Copy)] pub struct Element { kind: usize, n: usize, prescripts_at: usize }
impl Element { fn children(&self) -> Children { Children { n: self.n, prescripts_at: self.prescripts_at } } }
pub struct Children { n: usize, prescripts_at: usize }
impl Children {
    fn len(&self) -> usize { self.n }
    fn iter(&self) -> ChildIter { ChildIter { i: 0, n: self.n, prescripts_at: self.prescripts_at } }
}
pub struct ChildIter { i: usize, n: usize, prescripts_at: usize }
static CHILDREN: [Child; 2] = [Child { is_prescripts: false }, Child { is_prescripts: true }];
impl Iterator for ChildIter { type Item = &'static Child; fn next(&mut self) -> Option<&'static Child> { if self.i >= self.n { None } else { let c = &CHILDREN[(self.i == self.prescripts_at) as usize]; self.i += 1; Some(c) } } }
fn as_element(c: Child) -> Child { c }
fn name(c: &Child) -> &'static str { if c.is_prescripts { "mprescripts" } else { "mi" } }
fn mml_to_string(_e: &Element) -> String { String::new() }
'''

ARITY_HARNESS = r'''
const KINDS: [&str; NKIND] = [KIND_NAMES];
fn arity_check(mathml: Element, element_name: &'static str) -> Result<()> {
    let n_children = mathml.children().len();
    ARITY_BLOCK
    Ok(())
}
/// MathML 3 (presentation) arity table -- the oracle
fn spec_ok(kind: usize, n: usize, has_prescripts: bool) -> bool {
    match kind {
SPEC_ARMS
        _ => true,
    }
}
// K-C02-b: the arity check accepts exactly the child counts MathML allows
HARNESS(arity_check_matches_mathml, 24) {
    let kind = sym::below(NKIND);
    let n = sym::below(8);
    let prescripts_at = sym::below(9);           // index of the (single) mprescripts child; >= n means none
    let e = Element { kind, n, prescripts_at };
    cover!(kind == MM && n == 4 && prescripts_at == 1, "mmultiscripts with prescripts reachable");
    cover!(kind == 0 && n == 2, "mfrac with two children reachable");
    let r = match kind {
KIND_DISPATCH
        _ => Ok(()),
    };
    let ok = spec_ok(kind, n, prescripts_at < n);
    assert!(r.is_ok() == ok, "assure_mathml's arity check disagrees with the MathML arity of this element");
}
'''

SPEC = [("mfrac", "n == 2"), ("mroot", "n == 2"), ("msub", "n == 2"), ("msup", "n == 2"), ("msubsup", "n == 3"), ("munder", "n == 2"), ("mover", "n == 2"),
        ("munderover", "n == 3"), ("mmultiscripts", "n >= 1 && (if has_prescripts { n % 2 == 0 } else { n % 2 == 1 })"), ("mlongdiv", "n >= 3"),
        ("mrow", "true"), ("mtable", "true")]


def api_arity(vals=None, out=None):
    res = mcprobe([("mathml", "<math><mmultiscripts><mi>x</mi><mn>1</mn></mmultiscripts></math>"), ("mathml", "<math><mi>y</mi></math>"),
                   ("mathml", "<math><mmultiscripts><mi>x</mi><mn>1</mn><mn>2</mn><mprescripts/><mn>3</mn></mmultiscripts></math>")])
    bad = [r for r in (res[0], res[2]) if r[0] != "ERR"]
    return bool(bad), {"script": "set_mathml(mmultiscripts with an even number of children and no mprescripts) must be an error, not a panic or Ok", "results": res}


def build(run):
    run.outside += ["'exactly one child of math', 'no row with fewer than two children', ids: whole pipeline (DOM)",
                    "that every wrapper element is removed (clean_mathml arms, DOM)", "attribute escaping beyond the per-character kernel"]
    pp = slicer.Source.get("src/pretty_print.rs")
    hsc = pp.find("fn handle_special_chars")
    mexpr = pp.find_expr("match ch", within=hsc)
    run.uses(hsc, mexpr)
    crate_a = kani_run.Crate("c02esc", ESC_HARNESS.replace("MATCH_EXPR", mexpr.text))
    run.bound("K-C02-a", "every char (all 0x110000 scalar values); the closure body `match ch {..}` of handle_special_chars compiled verbatim")
    run.assume("the per-character closure is applied to every char of the text by chars().map().collect().join() (std iterator plumbing, not encoded)")
    run.kani(crate_a, [dict(id="K-C02-a.special_chars_escaped", harness="special_chars_escaped", role=lambda v, o: "char=U+%04X" % int.from_bytes(bytes(v[0]), "little"),
                            covers=["less-than reachable", "invisible times reachable", "astral char reachable"],
                            claim="< > & \" ' and U+2061..2064 are written as their references, every other char unchanged")], timeout=300)

    # ---- b: arity -----------------------------------------------------------------------------------------------------------------
    c = slicer.Source.get("src/canonicalize.rs")
    am = c.find("fn assure_mathml")
    block = c.find_expr("if ELEMENTS_WITH_FIXED_NUMBER_OF_CHILDREN . contains ( element_name )", within=am)
    fixed = c.find("static ELEMENTS_WITH_FIXED_NUMBER_OF_CHILDREN")
    run.uses(am, block, fixed)
    kinds = [k for k, _ in SPEC]
    body = prelude.PHF_MOCK + ARITY_SHIM + fixed.text + ARITY_HARNESS.replace("ARITY_BLOCK", block.text) \
        .replace("NKIND", str(len(kinds))).replace("KIND_NAMES", ", ".join('"%s"' % k for k in kinds)).replace("MM", str(kinds.index("mmultiscripts"))) \
        .replace("SPEC_ARMS", "\n".join("        %d => %s," % (i, cond) for i, (_, cond) in enumerate(SPEC))) \
        .replace("KIND_DISPATCH", "\n".join('        %d => arity_check(e, "%s"),' % (i, k) for i, k in enumerate(kinds)))
    crate_b = kani_run.Crate("c02arity", body, native_deps=prelude.PHF_NATIVE_DEP)
    run.bound("K-C02-b", "element in {%s}; 0..7 children; at most one mprescripts child at any index" % ", ".join(kinds))
    run.assume("oracle: MathML 3 presentation arities embedded in checks/C02.py; the DOM is reduced to (element name, child count, position of mprescripts)")
    run.kani(crate_b, [dict(id="K-C02-b.arity_check_matches_mathml", harness="arity_check_matches_mathml", api=lambda v, o: api_arity(),
                            role=lambda v, o: "element=%s" % (kinds[v[0][0]] if v and v[0][0] < len(kinds) else "?"),
                            covers=["mmultiscripts with prescripts reachable", "mfrac with two children reachable"],
                            claim="the fixed-arity block of assure_mathml returns Err exactly for child counts MathML does not allow")], timeout=300)
