"""C02 — Returned MathML is well-formed canonical MathML (DESIGN.md §3 C02).
Engine K on (a) the per-character escaping kernel of pretty_print::handle_special_chars (symbolic char), (b) the arity check of
assure_mathml (symbolic element kind and child count) against the MathML 3 arity table, (c) clean_mmultiscripts over a small model DOM."""
import kani_run
import prelude
import slicer
from framework import mcprobe

ESC_HARNESS = r'''
fn escape_char(ch: charEXTRA_PARAMS) -> String {
    MATCH_EXPR
}
fn is_ref(b: &[u8], w: &[u8]) -> bool { b == w }
fn check(ch: char, out: &String, attr_context: bool) {
    let b = out.as_bytes();
    // what an XML parser must give back is exactly ch: markup characters only as references; in an attribute value also the delimiter DELIM
    let want: Option<&[u8]> = match ch { '<' => Some(b"&lt;"), '&' => Some(b"&amp;"),
        '\u{2061}' => Some(b"&#x2061;"), '\u{2062}' => Some(b"&#x2062;"), '\u{2063}' => Some(b"&#x2063;"), '\u{2064}' => Some(b"&#x2064;"), _ => None };
    let mut tmp = [0u8; 4];
    let e = ch.encode_utf8(&mut tmp).as_bytes();
    match want {
        Some(w) => assert!(is_ref(b, w), "a markup / invisible character is not written as its XML reference"),
        None => {
            if ch == '>' { assert!(is_ref(b, b"&gt;") || is_ref(b, b">"), "'>' changed"); }
            else if ch == '"' { assert!(is_ref(b, b"&quot;") || (is_ref(b, b"\"") && !(attr_context && DELIM == '"')), "a double quote that delimits the attribute value is written raw"); }
            else if ch == '\'' { assert!(is_ref(b, b"&apos;") || (is_ref(b, b"'") && !(attr_context && DELIM == '\'')), "an apostrophe that delimits the attribute value is written raw"); }
            else { assert!(b.len() == e.len(), "ordinary character changed length"); let mut i = 0; while i < e.len() { assert!(b[i] == e[i], "ordinary character changed"); i += 1; } }
        }
    }
}
const DELIM: char = DELIM_CHAR;
// K-C02-a: every char is serialised so that an XML parser gives back exactly that char: in element content (arguments as format_element passes
// them) and inside an attribute value (arguments as format_attrs passes them, value delimited by DELIM)
HARNESS(special_chars_escaped, 12) {
    let ch = sym::ch();
    cover!(ch == '<', "less-than reachable");
    cover!(ch == '\u{2062}', "invisible times reachable");
    cover!((ch as u32) > 0xFFFF, "astral char reachable");
    cover!(ch == '\'', "apostrophe reachable");
    let t = escape_char(chTEXT_ARGS);
    check(ch, &t, false);
    let a = escape_char(chATTR_ARGS);
    check(ch, &a, true);
    core::mem::forget(t); core::mem::forget(a);
}
'''

ARITY_SHIM = r'''
pub type Result<T> = core::result::Result<T, ()>;
macro_rules! bail { ($($t:tt)*) => { return Err(()) }; }
#[derive(Clone, Copy)] pub struct Child { is_prescripts: bool }
#[derive(Clone, Copy)] pub struct Element { kind: usize, n: usize, prescripts_at: usize }
impl Element { fn children(&self) -> Children { Children { n: self.n, prescripts_at: self.prescripts_at } } }
pub struct Children { n: usize, prescripts_at: usize }
impl Children {
    fn len(&self) -> usize { self.n }
    fn iter(&self) -> ChildIter { ChildIter { i: 0, n: self.n, prescripts_at: self.prescripts_at } }
}
pub struct ChildIter { i: usize, n: usize, prescripts_at: usize }
static CHILDREN: [Child; 2] = [Child { is_prescripts: false }, Child { is_prescripts: true }];
impl Iterator for ChildIter { type Item = &'static Child; fn next(&mut self) -> Option<&'static Child> { if self.i >= self.n { None } else { let c = &CHILDREN[(self.i == self.prescripts_at) as usize]; self.i += 1; Some(c) } } }
fn as_element(c: Child) -> Child { c }
fn name(c: &Child) -> &'static str { if c.is_prescripts { "mprescripts" } else { "mi" } }
fn mml_to_string(_e: &Element) -> String { String::new() }
'''

ARITY_HARNESS = r'''
const KINDS: [&str; NKIND] = [KIND_NAMES];
fn arity_check(mathml: Element, element_name: &'static str) -> Result<()> {
    let n_children = mathml.children().len();
    ARITY_BLOCK
    Ok(())
}
/// MathML 3 (presentation) arity table -- the oracle
fn spec_ok(kind: usize, n: usize, has_prescripts: bool) -> bool {
    match kind {
SPEC_ARMS
        _ => true,
    }
}
// K-C02-b: the arity check accepts exactly the child counts MathML allows
HARNESS(arity_check_matches_mathml, 24) {
    let kind = sym::below(NKIND);
    let n = sym::below(8);
    let prescripts_at = sym::below(9);           // index of the (single) mprescripts child; >= n means none
    let e = Element { kind, n, prescripts_at };
    cover!(kind == MM && n == 4 && prescripts_at == 1, "mmultiscripts with prescripts reachable");
    cover!(kind == 0 && n == 2, "mfrac with two children reachable");
    let r = match kind {
KIND_DISPATCH
        _ => Ok(()),
    };
    let ok = spec_ok(kind, n, prescripts_at < n);
    assert!(r.is_ok() == ok, "assure_mathml's arity check disagrees with the MathML arity of this element");
}
'''

SPEC = [("mfrac", "n == 2"), ("mroot", "n == 2"), ("msub", "n == 2"), ("msup", "n == 2"), ("msubsup", "n == 3"), ("munder", "n == 2"), ("mover", "n == 2"),
        ("munderover", "n == 3"), ("mmultiscripts", "n >= 1 && (if has_prescripts { n % 2 == 0 } else { n % 2 == 1 })"), ("mlongdiv", "n >= 3"),
        ("mrow", "true"), ("mtable", "true")]


def api_escape(vals=None, out=None):
    import xml.dom.minidom
    res = mcprobe([("mathml", "<math><mi data-note=\"Newton's &lt;x&gt; &amp; &quot;y&quot;\">a&lt;b</mi></math>")])
    if res[0][0] != "OK":
        return True, {"result": res[0]}
    try:
        d = xml.dom.minidom.parseString(res[0][1].strip())
        mi = d.getElementsByTagName("mi")[0]
        ok = mi.getAttribute("data-note") == "Newton's <x> & \"y\"" and mi.firstChild.data == "a<b"
    except Exception as e:  # noqa
        return True, {"not well-formed": str(e), "returned": res[0][1]}
    return not ok, {"script": "set_mathml with quotes / markup characters in an attribute value and in text: the returned string must parse back to the same values", "returned": res[0][1][:300]}


def api_arity(vals=None, out=None):
    res = mcprobe([("mathml", "<math><mmultiscripts><mi>x</mi><mn>1</mn></mmultiscripts></math>"), ("mathml", "<math><mi>y</mi></math>"),
                   ("mathml", "<math><mmultiscripts><mi>x</mi><mn>1</mn><mn>2</mn><mprescripts/><mn>3</mn></mmultiscripts></math>")])
    bad = [r for r in (res[0], res[2]) if r[0] != "ERR"]
    return bool(bad), {"script": "set_mathml(mmultiscripts with an even number of children and no mprescripts) must be an error, not a panic or Ok", "results": res}


def build(run):
    run.outside += ["'exactly one child of math', 'no row with fewer than two children', ids: whole pipeline (DOM)",
                    "that every wrapper element is removed (clean_mathml arms, DOM)", "attribute escaping beyond the per-character kernel"]
    pp = slicer.Source.get("src/pretty_print.rs")
    hsc = pp.find("fn handle_special_chars")
    mexpr = pp.find_expr("match ch", within=hsc)
    fa = pp.find("fn format_attrs")
    fe = pp.find("fn format_element")
    run.uses(hsc, mexpr, fa, fe)
    import re
    sig = re.search(r"fn handle_special_chars\(\s*\w+\s*:\s*&str\s*((?:,\s*\w+\s*:\s*[\w&]+\s*)*)\)", hsc.text)
    if not sig:
        raise slicer.SliceError("signature of handle_special_chars not understood")
    extra_params = sig.group(1)          # e.g. ", is_attr_value: bool"
    n_extra = extra_params.count(":")

    def call_args(fn_span):
        m = re.search(r"handle_special_chars\(\s*(?:[^(),]|\([^()]*\))+((?:,\s*(?:true|false|\d+)\s*)*)\)", fn_span.text)
        if not m or m.group(1).count(",") != n_extra:
            raise slicer.SliceError("call of handle_special_chars in %s not understood" % fn_span.name)
        return m.group(1)
    text_args, attr_args = call_args(fe), call_args(fa)
    dm = re.search(r'format!\(\s*"\s*\{\}=(.)\{\}(.)"', fa.text)
    if not dm or dm.group(1) != dm.group(2) or dm.group(1) not in "\'\"":
        raise slicer.SliceError("attribute delimiter of format_attrs not found")
    delim = "\'\\\'\'" if dm.group(1) == "\'" else "\'\"\'"
    crate_a = kani_run.Crate("c02esc", ESC_HARNESS.replace("MATCH_EXPR", mexpr.text).replace("EXTRA_PARAMS", extra_params).replace("TEXT_ARGS", text_args)
                             .replace("ATTR_ARGS", attr_args).replace("DELIM_CHAR", delim))
    run.bound("K-C02-a", "every char (all 0x110000 scalar values), in element content and in an attribute value (delimiter %s, taken from format_attrs); the closure body `match ch {..}` of handle_special_chars compiled verbatim" % dm.group(1))
    run.assume("the per-character closure is applied to every char of the text by chars().map().collect().join() (std iterator plumbing, not encoded); the extra arguments the two call sites pass are read from format_element / format_attrs")
    run.kani(crate_a, [dict(id="K-C02-a.special_chars_escaped", harness="special_chars_escaped", role=lambda v, o: "char=U+%04X" % int.from_bytes(bytes(v[0]), "little"),
                            api=lambda v, o: api_escape(), covers=["less-than reachable", "invisible times reachable", "astral char reachable", "apostrophe reachable"],
                            claim="< & and U+2061..2064 are written as references, the attribute delimiter is escaped inside attribute values, every other char is unchanged")], timeout=300)

    # ---- b: arity -----------------------------------------------------------------------------------------------------------------
    c = slicer.Source.get("src/canonicalize.rs")
    am = c.find("fn assure_mathml")
    block = c.find_expr("if ELEMENTS_WITH_FIXED_NUMBER_OF_CHILDREN . contains ( element_name )", within=am)
    fixed = c.find("static ELEMENTS_WITH_FIXED_NUMBER_OF_CHILDREN")
    run.uses(am, block, fixed)
    kinds = [k for k, _ in SPEC]
    body = prelude.PHF_MOCK + ARITY_SHIM + fixed.text + ARITY_HARNESS.replace("ARITY_BLOCK", block.text) \
        .replace("NKIND", str(len(kinds))).replace("KIND_NAMES", ", ".join('"%s"' % k for k in kinds)).replace("MM", str(kinds.index("mmultiscripts"))) \
        .replace("SPEC_ARMS", "\n".join("        %d => %s," % (i, cond) for i, (_, cond) in enumerate(SPEC))) \
        .replace("KIND_DISPATCH", "\n".join('        %d => arity_check(e, "%s"),' % (i, k) for i, k in enumerate(kinds)))
    crate_b = kani_run.Crate("c02arity", body, native_deps=prelude.PHF_NATIVE_DEP)
    run.bound("K-C02-b", "element in {%s}; 0..7 children; at most one mprescripts child at any index" % ", ".join(kinds))
    run.assume("oracle: MathML 3 presentation arities embedded in checks/C02.py; the DOM is reduced to (element name, child count, position of mprescripts)")
    run.kani(crate_b, [dict(id="K-C02-b.arity_check_matches_mathml", harness="arity_check_matches_mathml", api=lambda v, o: api_arity(),
                            role=lambda v, o: "element=%s" % (kinds[v[0][0]] if v and v[0][0] < len(kinds) else "?"),
                            covers=["mmultiscripts with prescripts reachable", "mfrac with two children reachable"],
                            claim="the fixed-arity block of assure_mathml returns Err exactly for child counts MathML does not allow")], timeout=300)
    crate_d, lemma_d = semantics_lemma(run)
    run.kani(crate_d, [lemma_d], timeout=300)
    crate_c, lemma_c = mm_lemma(run)
    # D-C02-c (~300 s) and D-C02-e (~240 s of solver time for one harness each on the reference machine, 2-3x that on a slower one) are discharged by the
    # thorough tier only: the quick command has to finish on every change.  Splitting D-C02-c by child count or lowering its bound to 4 children
    # did not make it cheaper (the cost is the model DOM, not the case count), see DESIGN.md I.8
    run.kani(crate_c, [dict(lemma_c, deep=True)], timeout=900)
    crate_e, lemma_e = merge_lemma(run)
    run.kani(crate_e, [dict(lemma_e, deep=True)], timeout=900)
    crate_f, lemma_f = mn_lemma(run)
    run.kani(crate_f, [lemma_f], timeout=600)
    crate_h, lemma_h = lift_script_lemma(run)
    run.kani(crate_h, [lemma_h], timeout=600)
    crate_g, lemma_g = post_loop_lemma(run)
    run.kani(crate_g, [lemma_g], timeout=600)


# ======================================================================================================================
# D-C02-c / D-C08-h: clean_mmultiscripts over the model DOM
MM_SHIM = r'''
pub struct CanonicalizeContext;
impl CanonicalizeContext { fn create_empty_element<'a>(doc: &Document<'a>) -> Element<'a> { create_mathml_element(doc, "mtext") } }
'''

MM_HARNESS = r'''
// D-C02-c: clean_mmultiscripts on ANY child list (cleaning of the children may have deleted some): no panic, legal arity afterwards, nothing but none/none pairs lost
HARNESS(clean_mmultiscripts_total_and_legal, 12) {
    let n = 1 + sym::below(6);
    let mm = dom::new_node(3);
    let mut kinds = [0u8; 6];
    let mut n_pre = 0;
    let mut i = 0;
    while i < 6 {
        if i < n {
            let k = if i == 0 { 0 } else { sym::below(3) as u8 };            // base: mi; others: mi / none / mprescripts
            if k == 2 { n_pre += 1; }
            kinds[i] = k;
            let c = dom::new_node(k);
            mm.append_child_id(c.id);
        }
        i += 1;
    }
    sym::assume(n_pre <= 1);                                                 // the MathML schema allows one mprescripts
    let first_new = unsafe { dom::NNODES };
    let r = clean_mmultiscripts(mm).unwrap();                                // must not panic
    cover!(n == 2, "a script child was deleted before (even child count) reachable");
    cover!(n_pre == 1 && n == 5, "prescripts reachable");
    if r.id == mm.id {
        let ch = r.children();
        let m = ch.len();
        let mut pre_at = m; let mut j = 0;
        while j < m { if name(&as_element(ch[j])) == "mprescripts" { pre_at = j; } j += 1; }
        if pre_at == m { assert!(m % 2 == 1, "mmultiscripts without mprescripts is left with an even number of children"); }
        else { assert!(m % 2 == 0 && pre_at % 2 == 1, "mmultiscripts with mprescripts is left with unpaired scripts"); }
        // every visible (mi) child of the input is still there, in order
        let mut want = 0; j = 0;
        while j < m { let id = as_element(ch[j]).id as usize; if id < first_new && name(&as_element(ch[j])) == "mi" { while want < n && kinds[want] != 0 { want += 1; } assert!(want < n && id == mm.id as usize + 1 + want, "children reordered"); want += 1; } j += 1; }
        while want < n { assert!(kinds[want] != 0, "a visible script was dropped"); want += 1; }
    } else {
        assert!(r.id == mm.id + 1, "lifted something other than the base");
        let mut j = 1; while j < n { assert!(kinds[j] != 0, "a visible script was dropped when lifting the base"); j += 1; }
    }
}
'''


def api_mm(vals=None, out=None):
    import re
    if out is not None and "REPLAY-PANIC" in out and "index out of bounds" in out:
        res = mcprobe([("mathml", "<math><mmultiscripts><mi>x</mi><mphantom><mi>y</mi></mphantom><mn>2</mn></mmultiscripts></math>"), ("mathml", "<math><mi>z</mi></math>")])
        return res[0][0] not in ("OK", "ERR"), {"script": "set_mathml(mmultiscripts whose subscript is an mphantom: the child is deleted while cleaning)", "results": res}
    # arity role: scripts that the cleaning deletes (mphantom) at different places, with and without mprescripts
    shapes = ["<mi>x</mi><mn>1</mn><mphantom><mn>2</mn></mphantom><mprescripts/><mn>3</mn><mn>4</mn>",
              "<mi>x</mi><mphantom><mn>1</mn></mphantom><mn>2</mn><mprescripts/><mn>3</mn><mn>4</mn>",
              "<mi>x</mi><mn>1</mn><mn>2</mn><mprescripts/><mn>3</mn><mphantom><mn>4</mn></mphantom>",
              "<mi>x</mi><mn>1</mn><mphantom><mn>2</mn></mphantom>"]
    bad = []
    for sh in shapes:
        res = mcprobe([("mathml", "<math><mmultiscripts>" + sh + "</mmultiscripts></math>")])
        if res[0][0] != "OK":
            continue
        m = re.search(r"<mmultiscripts[^>]*>(.*)</mmultiscripts>", res[0][1], re.S)
        if not m:
            continue
        kids = re.findall(r"<(m\w+|none)\b[^>]*?(?:/>|>[^<]*</\1>)", m.group(1))
        n = len(kids)
        pre = [i for i, k in enumerate(kids) if k == "mprescripts"]
        legal = (not pre and n % 2 == 1) or (len(pre) == 1 and pre[0] % 2 == 1 and n % 2 == 0)
        if not legal:
            bad.append({"input": sh, "children": kids})
    return bool(bad), {"script": "set_mathml(mmultiscripts with an mphantom script at several positions): scripts must stay paired (odd child count without, even with mprescripts at an odd index)", "illegal": bad}


def mm_lemma(run):
    c = slicer.Source.get("src/canonicalize.rs")
    f = c.find("fn clean_mathml", "fn clean_mmultiscripts")
    run.uses(f)
    crate = kani_run.Crate("c02mm", prelude.MINIDOM + MM_SHIM + f.text + MM_HARNESS)
    run.bound("D-C02-c", "mmultiscripts with 1..6 children: base + any mix of visible script / none / at most one mprescripts at any position (model DOM: 16 nodes, 8 children)")
    run.assume("sxd_document replaced by the model DOM of lib/prelude.py (MINIDOM): index-based nodes, fixed-capacity child vectors; create_empty_element reduced to creating an mtext node")
    return crate, dict(id="D-C02-c.clean_mmultiscripts", harness="clean_mmultiscripts_total_and_legal", api=lambda v, o: api_mm(),
                       role=lambda v, o: "panic-on-unpaired-script" if "REPLAY-PANIC" in o and "index out of bounds" in o else "illegal-arity-or-lost-script",
                       covers=["a script child was deleted before (even child count) reachable", "prescripts reachable"],
                       claim="no panic for any child count; result has a legal arity (odd without / even with mprescripts at an odd index); visible scripts kept in order")


# ======================================================================================================================
# K-C02-d: the "semantics" arm of clean_mathml always hands an element back (its parent may have a fixed arity)
SEM_HARNESS = r'''
#[derive(Clone, Copy, PartialEq)] pub struct El { id: u8 }
pub struct Doc;
impl El { fn document(&self) -> Doc { Doc } }
pub struct CanonicalizeContext { child_survives: bool }
impl CanonicalizeContext {
    /// recursive cleaning of the presentation child: it survives or is cleaned away (mphantom, empty token, ...)
    fn clean_mathml(&self, e: El) -> Option<El> { if self.child_survives { Some(e) } else { None } }
    fn create_empty_element(_d: &Doc) -> El { El { id: 99 } }
    fn semantics_arm(&self, mathml: El) -> Option<El> {
        ARM_BODY
    }
}
fn get_presentation_element(e: El) -> (usize, El) { (0, El { id: e.id + 1 }) }
fn set_annotation_attrs(_new: El, _old: El) { }
HARNESS(semantics_arm_always_returns_an_element, 4) {
    let ctx = CanonicalizeContext { child_survives: sym::bool() };
    let r = ctx.semantics_arm(El { id: 1 });
    cover!(!ctx.child_survives, "presentation child cleaned away reachable");
    assert!(r.is_some(), "the semantics element disappears without a placeholder: a parent with a fixed number of children is left with too few");
    if ctx.child_survives { assert!(r == Some(El { id: 2 }), "the presentation child is not what is returned"); }
}
'''


def api_semantics(vals=None, out=None):
    import re
    res = mcprobe([("mathml", "<math><mfrac><semantics><mphantom><mi>x</mi></mphantom><annotation encoding='x'>y</annotation></semantics><mn>2</mn></mfrac></math>")])
    ok = res[0][0] == "OK" and len(re.findall(r"<mfrac[^>]*>\\s*<m\\w+[^>]*>.*?</m\\w+>\\s*<m\\w+", res[0][1], re.S)) == 1
    return not ok, {"script": "set_mathml(mfrac whose numerator is <semantics> around an <mphantom>): the mfrac must keep two children", "result": res[0]}


def semantics_lemma(run):
    c = slicer.Source.get("src/canonicalize.rs")
    cm = c.find("fn clean_mathml")
    arm = c.find_bracketed('"semantics" => {', within=cm)[0]
    body = arm.text[arm.text.index("{") + 1: arm.text.rindex("}")]
    run.uses(arm)
    crate = kani_run.Crate("c02sem", SEM_HARNESS.replace("ARM_BODY", body))
    run.bound("K-C02-d", "the body of the \"semantics\" arm of clean_mathml with the recursive cleaning of the presentation child succeeding or returning None")
    run.assume("recursive clean_mathml, get_presentation_element, create_empty_element, set_annotation_attrs replaced by stand-ins")
    return crate, dict(id="K-C02-d.semantics_arm_returns_element", harness="semantics_arm_always_returns_an_element", api=lambda v, o: api_semantics(),
                       role=lambda v, o: "semantics-dropped", covers=["presentation child cleaned away reachable"],
                       claim="the semantics arm returns Some(element) whether or not the presentation child survives cleaning")


# ======================================================================================================================
# D-C02-e: the leaf merges that delete a following sibling (merge_arc_trig, merge_vertical_bars) never shorten an element with a fixed arity
MERGE_SHIM = r"""
#[allow(dead_code)]
mod definitions {
    pub struct Defs; pub struct Names; pub struct Key;
    impl Defs { pub fn borrow(&self) -> &Defs { self } pub fn get_hashset(&self, _n: &str) -> Option<Names> { Some(Names) } }
    impl Names { pub fn contains(&self, t: &str) -> bool { t == "sin" } }      // stand-in for the TrigFunctionNames set of the language's definitions.yaml
    impl Key { pub fn with<R>(&self, f: impl FnOnce(&Defs) -> R) -> R { f(&Defs) } }
    pub static SPEECH_DEFINITIONS: Key = Key;
}
"""

MERGE_HARNESS = r"""
HARNESS(sibling_merges_keep_fixed_arity, 12) {
    let fixed = sym::bool();
    let parent = dom::new_node(if fixed { 9 } else { 5 });                   // mfrac / mrow
    let n = if fixed { 2 } else { 1 + sym::below(3) };
    const LEAF_KINDS: [u8; 3] = [0, 7, 4];                                   // mi mo mtext
    const LEAF_TEXTS: [u8; 5] = [8, 9, 11, 12, 4];                           // "arc" "sin" "|" "||" "x"
    let mut i = 0;
    while i < 3 { if i < n { let c = dom::new_node(LEAF_KINDS[sym::below(3)]); dom::set_leaf(c, LEAF_TEXTS[sym::below(5)]); parent.append_child_id(c.id); } i += 1; }
    let leaf = as_element(parent.children()[sym::below(n)]);
    let arc = sym::bool();
    let r = if arc { merge_arc_trig(leaf) } else { merge_vertical_bars(leaf) };
    let after = parent.children().len();
    cover!(arc && after < n, "arc + trig name merged reachable");
    cover!(!arc && after < n, "two bars merged reachable");
    cover!(fixed && r.is_some(), "merge function applies under mfrac reachable");
    if fixed { assert!(after == 2, "a child of an element with a fixed number of children was merged into its sibling"); }
    assert!(after + 1 >= n, "more than one sibling removed");
}
"""


def api_merge(vals=None, out=None):
    import re
    res = mcprobe([("mathml", "<math><mfrac><mi>arc</mi><mi>sin</mi></mfrac></math>"), ("mathml", "<math><mfrac><mo>|</mo><mo>|</mo></mfrac></math>")])
    bad = [r for r in res if not (r[0] == "OK" and len(re.findall(r"<m[ion]\b", r[1])) >= 2 or r[0] == "ERR")]
    return bool(bad), {"script": "set_mathml(mfrac whose two children are 'arc','sin' / '|','|'): the mfrac must keep two children", "results": res}


def merge_lemma(run):
    c = slicer.Source.get("src/canonicalize.rs")
    cm = c.find("fn clean_mathml")
    arc = c.find("fn clean_mathml", "fn merge_arc_trig")
    bars = c.find("fn clean_mathml", "fn merge_vertical_bars")
    fixed = c.find("static ELEMENTS_WITH_FIXED_NUMBER_OF_CHILDREN")
    run.uses(arc, bars, fixed)
    crate = kani_run.Crate("c02merge", prelude.PHF_MOCK + prelude.MINIDOM + MERGE_SHIM + fixed.text + arc.text + bars.text + MERGE_HARNESS, native_deps=prelude.PHF_NATIVE_DEP)
    run.bound("D-C02-e", "parent mfrac (2 children) or mrow (1..3 children); children are mi/mo/mtext leaves with text in {arc, sin, |, ||, x}; the merge is applied to any child")
    run.assume("model DOM (MINIDOM); the TrigFunctionNames set of definitions.yaml replaced by {sin}")
    return crate, dict(id="D-C02-e.sibling_merges_keep_fixed_arity", harness="sibling_merges_keep_fixed_arity", api=lambda v, o: api_merge(),
                       role=lambda v, o: "fixed-arity-child-merged-away",
                       covers=["arc + trig name merged reachable", "two bars merged reachable", "merge function applies under mfrac reachable"],
                       claim="merge_arc_trig / merge_vertical_bars never remove a child of an element with a fixed number of children, and remove at most one sibling")


# ======================================================================================================================
# D-C02-f: the "mn" arm of clean_mathml never produces an empty token
MN_SHIM = r"""
pub struct CanonicalizeContext;
impl CanonicalizeContext { fn make_roman_numeral(_e: Element) { } }
fn is_roman_number_match(_t: &str) -> bool { false }
const CHANGED_ATTR: &str = "data-changed";
const ADDED_ATTR_VALUE: &str = "added";
fn mn_arm<'a>(mathml: Element<'a>) -> Option<Element<'a>> {
    ARM_BODY
}
fn no_empty_token(e: Element) -> bool {
    if is_leaf(e) { return !as_text(e).is_empty(); }
    let ch = e.children(); let mut i = 0;
    while i < ch.len() { let c = as_element(ch[i]); if is_leaf(c) && as_text(c).is_empty() { return false; } i += 1; }
    true
}
fn go(t: u8) {
    let mn = dom::new_node(6);
    dom::set_leaf(mn, t);
    let r = mn_arm(mn).unwrap();
    cover!(name(&r) == "mrow" && t == 7, "negative number split reachable");
    cover!(t == 6, "lone minus reachable");
    assert!(no_empty_token(r), "an mn holding only a minus sign is split into <mo>-</mo> and an EMPTY <mn/>");
}
HARNESS(mn_arm_leaves_no_empty_token, 8) {
    // solver-selected literal cases: "1" "-" "-1" "\u{2212}" "\u{2212}1" "?"
    match sym::below(6) { 0 => go(5), 1 => go(6), 2 => go(7), 3 => go(14), 4 => go(15), _ => go(16) }
}
"""


def api_mn(vals=None, out=None):
    import re
    res = mcprobe([("mathml", "<math><mn>-</mn></math>"), ("mathml", "<math><mn>−</mn></math>")])
    bad = [r for r in res if r[0] == "OK" and re.search(r"<m[ion][^>]*></m[ion]>", r[1])]
    return bool(bad), {"script": "set_mathml(<mn>-</mn>): no empty token may be returned", "results": res}


def mn_lemma(run):
    c = slicer.Source.get("src/canonicalize.rs")
    cm = c.find("fn clean_mathml")
    arm = c.find_bracketed('"mn" => {', within=cm)[0]
    body = arm.text[arm.text.index("{") + 1: arm.text.rindex("}")]
    run.uses(arm)
    crate = kani_run.Crate("c02mn", prelude.MINIDOM + MN_SHIM.replace("ARM_BODY", body))
    run.bound("D-C02-f", "mn text in {1, -, -1, U+2212, U+2212 1, ?}: the body of the \"mn\" arm of clean_mathml, after the empty-leaf test that precedes the match")
    run.assume("model DOM (MINIDOM); is_roman_number_match false, make_roman_numeral a no-op")
    return crate, dict(id="D-C02-f.mn_arm_no_empty_token", harness="mn_arm_leaves_no_empty_token", api=lambda v, o: api_mn(),
                       role=lambda v, o: "lone-minus-mn-split",
                       covers=["negative number split reachable", "lone minus reachable"],
                       claim="whatever the mn holds, the arm returns a tree without empty token elements")


# ======================================================================================================================
# D-C02-g: an mrow whose children were ALL deleted by the child-cleaning loop of clean_mathml does not survive as an empty mrow
POST_SHIM = r"""
pub struct CanonicalizeContext;
static mut FELL_THROUGH: bool = false;
static mut MERGE_OK: bool = false;
const INTENT_ATTR: &str = "intent";
fn add_attrs(_e: Element, _a: &()) { }
impl<'a> dom::Element<'a> { fn attributes(&self) -> () { } fn clear_children(&self) { unsafe { dom::NCH[self.id as usize] = 0; } } }
impl CanonicalizeContext {
    fn is_ok_to_merge_mrow_child(_e: Element) -> bool { unsafe { MERGE_OK } }
    MAKE_EMPTY
}
#[allow(unused_variables, unused_mut, unreachable_code)]
fn post_loop<'a>(mathml: Element<'a>, element_name: &str, mut children: Vec<ChildOfElement<'a>>, parent_name: &str, parent_requires_child: bool) -> Option<Element<'a>> {
    SEGMENT
    unsafe { FELL_THROUGH = true; }
    return Some(mathml);
}
HARNESS(emptied_mrow_does_not_survive, 16) {
    let parent_kind: [u8; 3] = [5, 9, 3];                                     // mrow / mfrac / mmultiscripts
    let pk = parent_kind[sym::below(3)];
    let parent = dom::new_node(pk);
    let e = dom::new_node(5);                                                 // the mrow being cleaned
    parent.append_child_id(e.id);
    let n = sym::below(3);                                                    // children left after the loop
    let mut i = 0; while i < 2 { if i < n { let c = dom::new_node(0); dom::set_leaf(c, 4); e.append_child_id(c.id); } i += 1; }
    unsafe { MERGE_OK = sym::bool(); }
    let parent_name = name(&parent);
    let r = post_loop(e, "mrow", e.children(), parent_name, pk == 9);
    cover!(n == 0, "all children deleted reachable");
    cover!(n == 2 && unsafe { FELL_THROUGH }, "ordinary mrow falls through to the rest of clean_mathml reachable");
    if n == 0 {
        assert!(!unsafe { FELL_THROUGH } && (r.is_none() || name(&r.unwrap()) != "mrow"), "an mrow emptied by cleaning its children is kept as <mrow/> (no intent): an illegal row that later code indexes into");
        if pk == 9 { assert!(r.is_some(), "a required child disappears"); }
    }
}
"""


def api_post(vals=None, out=None):
    import re
    res = mcprobe([("mathml", "<math><msub><mi>x</mi><mrow><mphantom><mi>a</mi></mphantom><mphantom><mi>b</mi></mphantom></mrow></msub></math>"),
                   ("mathml", "<math><mfrac><mrow><mphantom><mi>a</mi></mphantom><mphantom><mi>b</mi></mphantom></mrow><mn>2</mn></mfrac></math>")])
    bad = [r for r in res if r[0] not in ("OK", "ERR") or r[0] == "OK" and re.search(r"<mrow[^>]*>\s*</mrow>", r[1])]
    return bool(bad), {"script": "set_mathml(script / numerator is an mrow holding only mphantoms)", "results": res}


def post_loop_lemma(run):
    c = slicer.Source.get("src/canonicalize.rs")
    cm = c.find("fn clean_mathml")
    loop = c.find_expr("while i < children . len ( )", within=cm)
    nxt = c.find_expr('if element_name == "mrow" || ELEMENTS_WITH_ONE_CHILD . contains ( element_name )', within=slicer.Span(c, loop.end, cm.end, cm.name))
    seg = slicer.Span(c, loop.end, nxt.start, "clean_mathml::after_child_loop")
    mk = c.find("impl CanonicalizeContext", "fn make_empty_element")
    run.uses(seg, mk)
    crate = kani_run.Crate("c02post", prelude.MINIDOM + POST_SHIM.replace("MAKE_EMPTY", mk.text).replace("SEGMENT", seg.text))
    run.bound("D-C02-g", "the statements of clean_mathml between its child-cleaning loop and the merge_number_blocks step, for an mrow (no intent) left with 0..2 children under an mrow / mfrac / mmultiscripts parent")
    run.assume("model DOM (MINIDOM); is_ok_to_merge_mrow_child arbitrary; attributes other than id not modelled (so the mrow never has an intent)")
    return crate, dict(id="D-C02-g.emptied_mrow_does_not_survive", harness="emptied_mrow_does_not_survive", api=lambda v, o: api_post(),
                       role=lambda v, o: "emptied-mrow-kept",
                       covers=["all children deleted reachable", "ordinary mrow falls through to the rest of clean_mathml reachable"],
                       claim="an mrow with no children left is removed, replaced by a placeholder when the parent needs the child, or turned into none under mmultiscripts")


# ======================================================================================================================
# D-C02-h: potentially_lift_script ( "[ x ]_0^1" with the scripts on the closing fence ) keeps the arity of the script element
LIFT_SCRIPT_SHIM = r"""
macro_rules! vec { () => { Vec::new() }; ($($x:expr),+ $(,)?) => {{ let mut v = Vec::new(); $( v.push($x); )+ v }}; }
fn is_fence(mo: Element) -> bool { let t = as_text(mo); t == "|" || t == "||" }                 // stand-in for the operator dictionary
pub struct CanonicalizeContext;
impl CanonicalizeContext {
    LIFT_FN
}
HARNESS(lift_script_keeps_arity, 16) {
    const SCRIPT_KINDS: [u8; 3] = [8, 11, 12];                                 // msub msup msubsup
    let kind = SCRIPT_KINDS[sym::below(3)];
    let row = dom::new_node(5);
    let open = dom::new_node(7); dom::set_leaf(open, 11); row.append_child_id(open.id);
    let x = dom::new_node(0); dom::set_leaf(x, 4); row.append_child_id(x.id);
    let script = dom::new_node(kind);
    let close = dom::new_node(7); dom::set_leaf(close, if sym::bool() { 11 } else { 3 });          // a fence, or '+' (not the case of interest)
    script.append_child_id(close.id);
    let s1 = dom::new_node(6); dom::set_leaf(s1, 5); script.append_child_id(s1.id);
    let s2 = dom::new_node(6); dom::set_leaf(s2, 5);
    if kind == 12 { script.append_child_id(s2.id); }
    row.append_child_id(script.id);
    let arity = script.children().len();
    let r = CanonicalizeContext.potentially_lift_script(row);
    cover!(r.id == script.id && kind == 12, "msubsup lifted reachable");
    cover!(r.id == row.id, "row left alone reachable");
    if r.id == script.id {
        let ch = r.children();
        assert!(ch.len() == arity, "the script element has a different number of children after the fenced group became its base");
        assert!(as_element(ch[0]).id == row.id && as_element(ch[1]).id == s1.id && (kind != 12 || as_element(ch[2]).id == s2.id), "base or scripts are not the original ones, in order");
        let rc = row.children();
        assert!(rc.len() == 3 && as_element(rc[0]).id == open.id && as_element(rc[1]).id == x.id && as_element(rc[2]).id == close.id, "the fenced group is not open, content, close");
    } else {
        assert!(r.id == row.id && script.children().len() == arity && row.children().len() == 3, "a row that is not the case of interest was changed");
    }
}
"""


def api_lift_script(vals=None, out=None):
    import re
    res = mcprobe([("mathml", "<math><mrow><mo>[</mo><msup><mi>x</mi><mn>2</mn></msup><msubsup><mo>]</mo><mn>0</mn><mn>1</mn></msubsup></mrow></math>")])
    m = re.search(r"<msubsup[^>]*>(.*)</msubsup>", res[0][1], re.S) if res[0][0] == "OK" else None
    ok = m is not None and ">0<" in res[0][1] and ">1<" in res[0][1]
    return not ok, {"script": "set_mathml([x^2]_0^1 with the scripts on the closing bracket): both limits must survive", "result": res[0]}


def lift_script_lemma(run):
    c = slicer.Source.get("src/canonicalize.rs")
    f = c.find("impl CanonicalizeContext", "fn potentially_lift_script")
    run.uses(f)
    crate = kani_run.Crate("c02lift", prelude.MINIDOM + LIFT_SCRIPT_SHIM.replace("LIFT_FN", f.text))
    run.bound("D-C02-h", "potentially_lift_script verbatim on the row [fence, x, script(close, s1[, s2])] with script in {msub, msup, msubsup} and the base of the script a fence or not (model DOM)")
    run.assume("model DOM (MINIDOM); is_fence replaced by 'the text is a vertical bar'; vec! builds the model vector")
    return crate, dict(id="D-C02-h.lift_script_keeps_arity", harness="lift_script_keeps_arity", api=lambda v, o: api_lift_script(),
                       role=lambda v, o: "script-arity-changed-by-lift", covers=["msubsup lifted reachable", "row left alone reachable"],
                       claim="the script element keeps all its children (the fenced row becomes child 0, the scripts stay), the row becomes open-content-close")
