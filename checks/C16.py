"""C16 — Split numbers fold into the same number as the unsplit form (DESIGN.md §3 C16).
Engine Z: whether a token sequence is a number is decided by regexes that CanonicalizeContextPatterns::new builds from
the locale preferences and by the boolean formula of is_likely_a_number; both are extracted from the source on every
run, instantiated for every separator setting set_separators can produce, and handed to z3 (unbounded length)."""
import re

import rxsmt
import slicer
from framework import mcprobe
import smt_run
from smt_run import smt_str


def rust_format(fmt, args):
    out, i, k = [], 0, 0
    while i < len(fmt):
        if fmt.startswith("{{", i):
            out.append("{")
            i += 2
        elif fmt.startswith("}}", i):
            out.append("}")
            i += 2
        elif fmt[i] == "{":
            j = fmt.index("}", i)
            out.append(str(args[k]))
            k += 1
            i = j + 1
        else:
            out.append(fmt[i])
            i += 1
    if k != len(args):
        raise slicer.SliceError("format string %r does not take %d arguments" % (fmt, len(args)))
    return "".join(out)


def first_str_after(text, marker):
    i = text.index(marker)
    toks = [t for t in slicer.lex(text[i:]) if t.kind == "str"]
    return slicer.unquote(toks[0].text)


def extract_patterns(new_fn):
    """-> dict name -> function(block, dec) -> regex text, evaluated from the extracted format strings."""
    t = new_fn.text
    pats = {}
    pats["block_separator"] = (first_str_after(t, "let block_separator ="), lambda b, d: [rxsmt.escape_real(b)])
    pats["decimal_separator"] = (first_str_after(t, "let decimal_separator ="), lambda b, d: [rxsmt.escape_real(d)])
    pats["digit_only_decimal_number"] = (first_str_after(t, "let digit_only_decimal_number ="), lambda b, d: [rxsmt.escape_real(d)])
    pats["block_4digit_hex_pattern"] = (first_str_after(t, "let block_4digit_hex_pattern ="), None)   # plain literal, not a format string
    pats["block_1digit_pattern"] = (first_str_after(t, "let block_1digit_pattern ="), None)
    gf = new_fn.find("fn get_number_pattern_regex")
    gfmt = first_str_after(gf.text, "Regex::new")
    # the argument list of the format! call, evaluated generically: each argument is one of the four parameters (escaped or not)
    m = re.search(r'format!\(\s*r?#*"(?:\\.|[^"\\])*"#*\s*,(.*?)\)\s*\)\s*\.unwrap\(\)', gf.text, re.S)
    if not m:
        raise slicer.SliceError("format! call of get_number_pattern_regex not found")
    arg_texts = [re.sub(r"\s+", "", a) for a in re.split(r",(?![^()]*\))", m.group(1)) if a.strip()]
    sig = re.search(r"fn get_number_pattern_regex\((\w+): &str, (\w+): &str, (\w+): usize, (\w+): usize\)", gf.text)
    if not sig:
        raise slicer.SliceError("signature of get_number_pattern_regex changed")
    pb, pd, pnb, pna = sig.groups()

    def make_args(b, d, nb, na):
        env = {pb: b, pd: d, pnb: nb, pna: na, "regex::escape(%s)" % pb: rxsmt.escape_real(b), "regex::escape(%s)" % pd: rxsmt.escape_real(d)}
        out = []
        for a in arg_texts:
            if a not in env:
                raise slicer.SliceError("get_number_pattern_regex: cannot evaluate format argument %r" % a)
            out.append(env[a])
        return out
    for name in ("block_3digit_pattern", "block_3_5digit_pattern"):
        mm = re.search(r"let %s = get_number_pattern_regex\(block_separator_pref, decimal_separator_pref, (\d+), (\d+)\)" % name, t)
        if not mm:
            raise slicer.SliceError("call of get_number_pattern_regex for %s not found" % name)
        nb, na = int(mm.group(1)), int(mm.group(2))
        pats[name] = (gfmt, lambda b, d, nb=nb, na=na: make_args(b, d, nb, na))
    return pats


def parse_condition(cond_text):
    """Boolean skeleton of the `if !( ... )` condition of is_likely_a_number -> SMT term builder over pattern predicates."""
    toks = [t.text for t in slicer.lex(cond_text) if t.kind != "comment"]
    pos = [0]

    def peek():
        return toks[pos[0]] if pos[0] < len(toks) else None

    def eat(x=None):
        t = toks[pos[0]]
        if x is not None and t != x:
            raise slicer.SliceError("is_likely_a_number condition: expected %r got %r" % (x, t))
        pos[0] += 1
        return t

    def atom():
        if peek() == "(":
            eat("(")
            e = disj()
            eat(")")
            return e
        if peek() == "context":
            for x in ("context", ".", "patterns", "."):
                eat(x)
            name = eat()
            for x in (".", "is_match", "(", "text", ")"):
                eat(x)
            return ("match", name)
        if peek() == "text":
            for x in ("text", ".", "chars", "(", ")", ".", "count", "(", ")", ">"):
                eat(x)
            return ("len>", int(eat()))
        raise slicer.SliceError("is_likely_a_number condition: unexpected token %r" % peek())

    def conj():
        e = [atom()]
        while peek() == "&" and toks[pos[0] + 1] == "&":
            eat("&")
            eat("&")
            e.append(atom())
        return e[0] if len(e) == 1 else ("and", e)

    def disj():
        e = [conj()]
        while peek() == "|" and toks[pos[0] + 1] == "|":
            eat("|")
            eat("|")
            e.append(conj())
        return e[0] if len(e) == 1 else ("or", e)
    e = disj()
    if pos[0] != len(toks):
        raise slicer.SliceError("is_likely_a_number condition: trailing tokens %r" % toks[pos[0]:])
    return e


def cond_to_smt(e, langs, var):
    if e[0] == "and" and all(x[0] == "match" for x in e[1]):
        return "(str.in_re %s (re.inter %s))" % (var, " ".join(langs[x[1]] for x in e[1]))
    if e[0] == "match":
        if e[1] not in langs:
            raise slicer.SliceError("unknown pattern %s" % e[1])
        return "(str.in_re %s %s)" % (var, langs[e[1]])
    if e[0] == "len>":
        # length constraints as regex memberships: z3's regex solver decides these instantly, mixed length/regex constraints time out
        return "(str.in_re %s (re.++ ((_ re.loop %d %d) re.allchar) re.all))" % (var, e[1] + 1, e[1] + 1)
    return "(%s %s)" % (e[0], " ".join(cond_to_smt(x, langs, var) for x in e[1]))


def cond_eval_real(e, regexes, text):
    if e[0] == "match":
        return rxsmt.is_match_real(regexes[e[1]], [text])[0]
    if e[0] == "len>":
        return len(text) > e[1]
    vals = [cond_eval_real(x, regexes, text) for x in e[1]]
    return all(vals) if e[0] == "and" else any(vals)


def cls(chars):
    return "(re.union %s)" % " ".join("(str.to_re %s)" % smt_str(c) for c in chars) if len(chars) > 1 else "(str.to_re %s)" % smt_str(chars[0])


def tokens_mathml(t):
    """maximal digit runs -> mn, every other char -> mo (a generator that split the number at its separators)."""
    out = []
    for m in re.finditer(r"\d+|[^\d]", t):
        s = m.group(0)
        if s[0].isdigit():
            out.append("<mn>%s</mn>" % s)
        elif s in (" ", "\u00a0", "\u202f"):
            out.append("<mtext>&#x%X;</mtext>" % ord(s))
        else:
            out.append("<mo>&#x%X;</mo>" % ord(s))
    return "".join(out)


def api_fold(setting_prefs, t):
    expr = "<math><mi>x</mi><mo>=</mo>%s</math>" % tokens_mathml(t)
    res = mcprobe(setting_prefs + [("mathml", expr)])
    if res[-1][0] != "OK":
        return None, res[-1]
    mns = re.findall(r"<mn[^>]*>([^<]*)</mn>", res[-1][1])
    return mns, res[-1][1]


def build(run):
    run.outside += ["the trimming / merging control flow of merge_number_blocks and its scan of mn siblings (DOM code)", "context heuristics (final punctuation, chemistry)",
                    "equality of speech/braille for split vs unsplit input (rule interpreter)"]
    crate_g, lemma_g = guard_lemma(run)
    run.kani(crate_g, [lemma_g], timeout=600)
    c = slicer.Source.get("src/canonicalize.rs")
    prefs = slicer.Source.get("src/prefs.rs")
    new_fn = c.find("impl CanonicalizeContextPatterns", "fn new")
    likely = c.find("fn is_likely_a_number")
    setsep = prefs.find("fn set_separators")
    run.uses(new_fn, likely, setsep)
    # ---- separator settings set_separators can produce, from its literals ------------------------------------------
    m1 = re.search(r'if use_period \{\s*"([^"]*)"\s*\} else \{\s*"([^"]*)"\s*\}\)\.to_string\(\)\)\);', setsep.text)
    m2 = re.search(r'let mut block_separators\s*=\s*\(if use_period \{\s*("[^"]*")\s*\} else \{\s*("[^"]*")\s*\}\)', setsep.text)
    m3 = re.search(r"block_separators\.push\(('(?:\\.|[^'])')\)", setsep.text)
    if not (m1 and m2 and m3):
        raise slicer.SliceError("set_separators: separator literals not found")
    dec_p, dec_c = m1.group(1), m1.group(2)
    blk_p, blk_c = slicer.unquote(m2.group(1)), slicer.unquote(m2.group(2))
    extra = slicer.unquote(m3.group(1))
    settings = {
        "period": (blk_p, dec_p, [("pref", "DecimalSeparator " + dec_p)]),
        "comma": (blk_c, dec_c, [("pref", "DecimalSeparator " + dec_c)]),
        "period-ch": (blk_p + extra, dec_p, [("pref", "Language en-ch"), ("pref", "DecimalSeparator " + dec_p)]),
        "comma-ch": (blk_c + extra, dec_c, [("pref", "Language de-ch"), ("pref", "DecimalSeparator " + dec_c)]),
    }
    pats = extract_patterns(new_fn)
    crate_s, lemmas_s = scan_lemma(run, settings, pats)
    run.kani(crate_s, lemmas_s, timeout=600)
    # the acceptance condition
    mcond = re.search(r"if !\((.*?)\)\s*\{\s*return false;", likely.text, re.S)
    if not mcond:
        raise slicer.SliceError("acceptance condition of is_likely_a_number not found")
    cond = parse_condition(mcond.group(1))
    run.bound("Z-C16", "4 separator settings (decimal '.'/',' x with/without the Swiss apostrophe) = everything set_separators can produce; strings of unbounded length")
    run.assume("\\d is the exact Unicode digit set of the real regex crate; regex::escape is evaluated by the real crate (native/rxcheck)",
               "tokens reach is_likely_a_number as the concatenation of their texts (adjacent mn tokens joined by U+FFFF); text.trim() is the identity on the grammar used",
               "number grammar (oracle) = the one in the property statement: lead group of 1-3 digits, groups of exactly 3 digits each preceded by one block separator, optional decimal mark + digits, or plain digits with optional leading/trailing mark")
    D = rxsmt.cls_smt(rxsmt.real_class("\\d"))
    AD = '(re.range "0" "9")'
    for sname, (blk, dec, api_prefs) in settings.items():
        regexes = {n: (rust_format(fmt, argf(blk, dec)) if argf else fmt) for n, (fmt, argf) in pats.items()}
        langs = {}
        for n, r in regexes.items():
            langs[n] = rxsmt.search_lang(r)
        # the same languages intersected with the witness alphabet of the soundness queries (printable ASCII + NBSP + NNBSP)
        rxsmt.CLASS_FILTER = [(0x20, 0x7E), (0xA0, 0xA0), (0x202F, 0x202F)]
        langs_ascii = {n: rxsmt.search_lang(r) for n, r in regexes.items()}
        rxsmt.CLASS_FILTER = None
        B = cls(list(blk))
        DEC = cls(list(dec))
        accept = cond_to_smt(cond, langs, "t")
        # -- c: the decimal mark is not a block separator; it is one char (so the literal use in digit_only = the class use)
        run.queries += 1
        if len(dec) == 1 and dec not in blk:
            run.holds("Z-C16-c.%s.separators_disjoint" % sname, note="(decimal %r, block %r)" % (dec, blk))
        else:
            run.violated("Z-C16-c.%s.separators_disjoint" % sname, "separators:" + sname, "decimal mark %r / block separators %r overlap or decimal is not one char" % (dec, blk), {})
        # -- a: completeness --------------------------------------------------------------------------------------
        num = "(re.union (re.+ {D}) (re.++ ((_ re.loop 1 3) {D}) (re.+ (re.++ {B} ((_ re.loop 3 3) {D}))) (re.opt (re.++ {DEC} (re.* {D})))) (re.++ (re.+ {D}) {DEC} (re.* {D})) (re.++ {DEC} (re.+ {D})))".format(D=AD, B=B, DEC=DEC)

        def w_complete(model, regexes=regexes, api_prefs=api_prefs, sname=sname):
            t = model["t"]
            if cond_eval_real(cond, regexes, t):
                return None     # the real regexes accept it: translator problem, not a finding
            mns, raw = api_fold(api_prefs, t)
            if mns is not None and t in mns:
                return None
            return ("unfolded-number:" + sname, "number %r of the locale grammar (%s) is not recognised by is_likely_a_number; canonical mn tokens: %r" % (t, sname, mns), {"t": t, "api": raw})
        run.smt("Z-C16-a.%s.complete" % sname, "(declare-const t String)\n(assert (str.in_re t %s))\n(assert (not %s))" % (num, accept), get=("t",), witness=w_complete,
                vacuity="(declare-const t String)\n(assert (str.in_re t %s))\n(assert (> (str.len t) 9))" % num, timeout=120,
                claim="every string of the locale's number grammar satisfies the acceptance formula of is_likely_a_number")
        # -- b: soundness -----------------------------------------------------------------------------------------
        # groups of exactly 3 digits after a 1-3 digit lead; the separator between groups may be missing (the comment of
        # get_number_pattern_regex documents `[, ]?` as intended: '1 234.567 8' and '1,234.' are numbers, '1,234.12,34' is not)
        Int = "(re.union (re.* {D}) (re.++ ((_ re.loop 1 3) {D}) (re.* (re.++ (re.opt {B}) ((_ re.loop 3 3) {D})))))".format(D=AD, B=B)
        Frac = "(re.++ (re.+ {D}) (re.* (re.++ {B} (re.+ {D}))))".format(D=AD, B=B)
        H = '(re.union (re.range "0" "9") (re.range "a" "f") (re.range "A" "F"))'
        hexl = "(re.++ ((_ re.loop 4 4) {H}) (re.* (re.++ {HS} ((_ re.loop 4 4) {H}))))".format(H=H, HS=cls([" ", "\u00a0", "\u202f"]))
        loose = '(re.union (str.to_re "") {DEC} (re.++ {Int} (re.opt (re.++ {DEC} (re.opt {Frac})))) (re.++ {DEC} {Frac}) {hexl})'.format(DEC=DEC, Int=Int, Frac=Frac, hexl=hexl)

        def w_sound(model, regexes=regexes, api_prefs=api_prefs, sname=sname):
            t = model["t"]
            if not cond_eval_real(cond, regexes, t):
                return None
            mns, raw = api_fold(api_prefs, t)
            if mns is None or t not in mns:
                return None     # the API did not fold it (context rules stopped it): not a finding
            via = sorted(n for n in regexes if n.endswith("pattern") or n.startswith("digit_only") if rxsmt.is_match_real(regexes[n], [t])[0])
            return ("via:" + "+".join(via), "token sequence %r (%s) is folded into ONE number although it is not a number of that locale (canonical mn: %r; accepted by %s)" % (t, sname, mns, via),
                    {"t": t, "api": raw, "accepted_by": via})
        # witness search space (a subset of all inputs, stated as the bound of this lemma): digits, ',' '.' and the apostrophe, starting and
        # ending with a digit, at most 16 chars -- the shapes the API replay recipe (mn / mo tokens after "x =") reproduces reliably
        ascii_only = '(and (str.in_re t ((_ re.loop 0 16) re.allchar)) (str.in_re t (re.++ (re.range "0" "9") (re.* (re.union (re.range "0" "9") (str.to_re ",") (str.to_re ".") (str.to_re "\'"))) (re.range "0" "9"))))'
        disjuncts = cond[1] if cond[0] == "or" else [cond]
        # a group of 1-2 digits between two separators (block separator or decimal mark of the locale)
        SEP = "(re.union %s %s)" % (B, DEC)
        short_group = "(re.++ re.all {S} ((_ re.loop 1 2) {D}) {S} re.all)".format(S=SEP, D=AD)
        for dj in disjuncts:
            names = [dj[1]] if dj[0] == "match" else [x[1] for x in _atoms(dj) if x[0] == "match"]
            dname = "+".join(names)
            lid = "Z-C16-b.%s.%s.sound" % (sname, dname)
            if "block_1digit_pattern" in names:
                # this disjunct is known to over-accept (listed finding); decided as: (1) the targeted role query, (2) thorough tier: the rest
                shape_re = '(re.++ (re.range "0" "9") (re.* (re.union (re.range "0" "9") (str.to_re ",") (str.to_re ".") (str.to_re "\'"))) (re.range "0" "9"))'
                _cegar(run, lid + ".no_short_groups", "(assert %s)\n(assert (str.in_re t (re.inter %s %s %s)))\n(assert (str.in_re t ((_ re.loop 0 16) re.allchar)))" % (
                    cond_to_smt(dj, langs_ascii, "t"), langs_ascii["block_1digit_pattern"], short_group, shape_re), w_sound, "one-or-two-digit-group")
                if run.tier == "thorough":
                    rest = "(assert %s)\n(assert (not (str.in_re t %s)))\n(assert (not (str.in_re t %s)))\n(assert %s)" % (cond_to_smt(dj, langs_ascii, "t"), short_group, loose, ascii_only)
                    r = smt_run.solve("(declare-const t String)\n" + rest, get=("t",), timeout=600)
                    run.queries += 1
                    run.solver_time += r["time_s"]
                    if r["status"] in ("unsat", "sat"):
                        _cegar(run, lid + ".rest", rest, w_sound, "folds-a-non-number", timeout=600)
                    else:
                        run.sample({"lemma": lid + ".rest", "status": "NOT DECIDED (%s after %.0fs) - outside the claim" % (r["status"], r["time_s"])})
                        run.outside.append("%s.rest: strings accepted through block_1digit_pattern without a short group: solver %s" % (lid, r["status"]))
                continue
            _cegar(run, lid, "(assert %s)\n(assert (not (str.in_re t %s)))\n(assert %s)" % (cond_to_smt(dj, langs_ascii, "t"), loose, ascii_only), w_sound, "folds-a-non-number")


def _cegar(run, lid, assertions, w_sound, role, timeout=60):
    """Existential query with replay filter: a solver candidate that the API does not reproduce is blocked and the solver is asked
    again (DESIGN.md §6: over-approximate domains only produce candidates)."""
    blocked = []
    for attempt in range(8):
        q = "(declare-const t String)\n" + assertions + "\n" + "".join("(assert (distinct t %s))\n" % smt_str(b) for b in blocked)
        r = smt_run.solve(q, get=("t",), timeout=timeout)
        run.queries += 1
        run.solver_time += r["time_s"]
        run.sample({"lemma": lid, "engine": "z3-new", "status": r["status"], "solver_s": r["time_s"], "model": r["model"], "blocked_candidates": list(blocked)})
        if r["status"] == "unsat":
            run.nontrivial += 1
            return run.holds(lid, note="(unsat, %.2fs%s)" % (r["time_s"], "; %d regex-level candidates did not fold through the API: %r" % (len(blocked), blocked) if blocked else ""))
        if r["status"] != "sat":
            return run.inconclusive_(lid, "solver answered %s" % r["status"])
        w = w_sound(r["model"])
        if w is None:
            blocked.append(r["model"]["t"])
            continue
        _, what, payload = w
        run.nontrivial += 1
        return run.violated(lid, role, what, dict(payload, model=r["model"]))
    return run.holds(lid, note="(regex-level over-acceptance only: %d solver candidates, none is folded by the API: %r)" % (len(blocked), blocked))


def _atoms(e):
    if e[0] in ("and", "or"):
        for x in e[1]:
            for y in _atoms(x):
                yield y
    else:
        yield e


# ======================================================================================================================

# ======================================================================================================================
# D-C16-d: one step of the sibling scan of merge_number_blocks for an mo / mtext sibling: which tokens end a number candidate
SCAN_SHIM = r"""
#[cfg(kani)] use rxmock::Regex;
#[cfg(not(kani))] use regex::Regex;
pub struct Patterns { block_separator: &'static Regex, decimal_separator: &'static Regex }
pub struct CanonicalizeContext { patterns: Patterns }
#[derive(Clone, Copy)] pub struct Element { t: usize }
const TEXTS: [&str; 6] = [",", ".", "\u{a0}", "+", "'", "\u{202f}"];
fn as_text(e: Element) -> &'static str { TEXTS[e.t] }
/// the body of the `sibling_name=="mo" || sibling_name=="mtext"` arm, verbatim, as one step: -> (scan stopped, has_decimal_separator', not_a_number')
#[allow(unreachable_code, unused_assignments, unused_mut, clippy::never_loop)]
fn step(context: &CanonicalizeContext, sibling: Element, do_not_merge_comma: bool, has_dec: bool) -> (bool, bool, bool) {
    let mut has_decimal_separator = has_dec;
    let mut not_a_number = false;
    loop {
        ARM_BODY
        return (false, has_decimal_separator, not_a_number);
    }
    (true, has_decimal_separator, not_a_number)
}
fn check(context: &CanonicalizeContext) {
    let t = sym::below(6);
    let (dnm, has_dec) = (sym::bool(), sym::bool());
    let text = TEXTS[t];
    let blk = context.patterns.block_separator.is_match(text);
    let dec = context.patterns.decimal_separator.is_match(text);
    let (stopped, has_dec2, nan) = step(context, Element { t }, dnm, has_dec);
    cover!(blk && t != 0 && dnm && !stopped, "block separator other than ',' continues the candidate although the row holds a list comma");
    cover!(dec && has_dec && stopped && nan, "second decimal separator reachable");
    if !(blk || dec) { assert!(stopped && !nan, "a token that is no separator does not end the number candidate"); }
    else if dec && has_dec { assert!(stopped && nan, "a second decimal separator does not end the candidate as not-a-number"); }
    else if t == 0 && dnm { assert!(stopped && !nan, "a ',' continues the candidate although the row holds a comma that is not part of a number (issue #271)"); }
    else {
        assert!(!stopped, "a block / decimal separator ends the number candidate: the split number is not folded");
        assert!(has_dec2 == (has_dec || dec), "the scan forgets (or invents) that it has seen the decimal separator");
    }
}
"""


def api_scan(vals=None, out=None):
    res = mcprobe([("pref", "DecimalSeparator ."), ("mathml", "<math><mi>P</mi><mo>(</mo><mi>x</mi><mo>,</mo><mn>12</mn><mspace width='0.167em'/><mn>345</mn><mo>)</mo></math>")])
    bad = res[-1][0] != "OK" or not re.search(r"<mn[^>]*>12.345</mn>", res[-1][1])
    return bad, {"script": "set_mathml(P(x, 12 <mspace/> 345)): the number split at a space must be folded into one mn although the row has a list comma", "result": res[-1]}


def scan_lemma(run, settings, pats):
    import kani_run
    c = slicer.Source.get("src/canonicalize.rs")
    mnb = c.find("fn clean_mathml", "fn merge_number_blocks")
    arm = c.find_bracketed('else if sibling_name == "mo" || sibling_name == "mtext" {', within=mnb)[0]
    body = arm.text[arm.text.index("{"):]
    run.uses(slicer.Span(c, arm.start, arm.end, "merge_number_blocks::sibling scan::mo/mtext arm"))
    statics, harnesses, lemmas = [], [], []
    for sname in ("period", "comma"):
        b, d, _ = settings[sname]
        nb, nd = "BLOCK_" + sname.upper(), "DEC_" + sname.upper()
        statics += [(nb, rust_format(pats["block_separator"][0], pats["block_separator"][1](b, d))), (nd, rust_format(pats["decimal_separator"][0], pats["decimal_separator"][1](b, d)))]
        harnesses.append('HARNESS(scan_step_%s, 8) {\n    let ctx = CanonicalizeContext { patterns: Patterns { block_separator: &%s, decimal_separator: &%s } };\n    check(&ctx);\n}' % (sname, nb, nd))
        lemmas.append(dict(id="D-C16-d.scan_step." + sname, harness="scan_step_" + sname, api=lambda v, o: api_scan(), role=lambda v, o: "separator-ends-candidate" if "is not folded" in o else "scan-step-other",
                           covers=["block separator other than ',' continues the candidate although the row holds a list comma", "second decimal separator reachable"],
                           claim="the scan stops at a non-separator, at a second decimal separator (not a number) and at ',' when the row has a list comma; every other separator continues the candidate"))
    crate = kani_run.Crate("c16scan", rxsmt.mock_statics(statics) + SCAN_SHIM.replace("ARM_BODY", body) + "\n".join(harnesses), native_deps={"regex": '"1.10"', "lazy_static": '"1.4"'})
    run.bound("D-C16-d", "the mo/mtext arm of the sibling scan of merge_number_blocks, one step: sibling text in { , . NBSP + ' U+202F } x do_not_merge_comma x has_decimal_separator, for the 'period' and 'comma' separator settings (patterns built from the extracted format strings, generated DFAs)")
    run.assume("D-C16-d: the loop around the arm is replaced by a one-pass loop (break = scan stopped); block_separator / decimal_separator are the DFAs generated from the patterns CanonicalizeContextPatterns::new builds for the setting")
    return crate, lemmas


# D-C16-c: the fence guard at the end of is_likely_a_number: a comma-grouped candidate stays a list only between two fences
GUARD_HARNESS = r"""
fn is_fence(mo: Element) -> bool { let t = as_text(mo); t == "|" || t == "||" }                 // stand-in for the operator dictionary: the bars are the fences of the model's texts
#[allow(unused_variables)]
fn fence_guard<'a>(mrow: Element<'a>, children: &[ChildOfElement<'a>]) -> bool {
    let end = children.len();
    GUARD_SEGMENT
}
fn side(row: Element<'static>, present: bool, k: usize) -> (bool, bool) {
    // -> (is present, is a fence mo); k: 0 = <mo>|</mo> (fence), 1 = <mo>+</mo>, 2 = <mi>x</mi>
    if !present { return (false, false); }
    let e = dom::new_node(if k == 2 { 0 } else { 7 }); dom::set_leaf(e, if k == 0 { 11 } else if k == 1 { 3 } else { 4 });
    row.append_child_id(e.id);
    (true, k == 0)
}
HARNESS(fence_guard_needs_both_fences, 16) {
    let outer = dom::new_node(5);
    let spans_all = sym::bool();                     // the candidate is all of its mrow: the fences are siblings of the mrow
    let row = if spans_all { dom::new_node(5) } else { outer };
    let (lp, lf) = side(outer, sym::bool(), sym::below(3));
    if spans_all { outer.append_child_id(row.id); }
    let n1 = dom::new_node(6); dom::set_leaf(n1, 5); row.append_child_id(n1.id);
    let comma = dom::new_node(7); dom::set_leaf(comma, 3); row.append_child_id(comma.id);
    let n2 = dom::new_node(6); dom::set_leaf(n2, 5); row.append_child_id(n2.id);
    let (rp, rf) = side(outer, sym::bool(), sym::below(3));
    let mut cand: Vec<ChildOfElement> = Vec::new();
    cand.push(ChildOfElement::Element(n1)); cand.push(ChildOfElement::Element(comma)); cand.push(ChildOfElement::Element(n2));
    let is_number = fence_guard(row, &cand);
    cover!(lp && lf && rp && rf, "candidate between two fences reachable");
    cover!(lp && lf && rp && !rf && !spans_all, "opening fence, then an operator after the candidate reachable");
    assert!(is_number == !(lp && lf && rp && rf), "a comma-grouped number is left unfolded (or a fenced list is folded): the guard must fire exactly when BOTH neighbours are fences");
}
"""


def api_guard(vals=None, out=None):
    import re
    res = mcprobe([("mathml", "<math><mo>(</mo><mn>1</mn><mo>,</mo><mn>234</mn><mo>+</mo><mn>5</mn><mo>)</mo></math>"),
                   ("mathml", "<math><mo>(</mo><mn>451</mn><mo>,</mo><mn>231</mn><mo>)</mo></math>")])
    bad = res[0][0] != "OK" or ">1,234<" not in res[0][1] or res[1][0] != "OK" or ">451,231<" in res[1][1]
    return bad, {"script": "set_mathml('(1,234+5)') must fold 1,234; set_mathml('(451,231)') must stay a list", "results": res}


def guard_lemma(run):
    import kani_run, prelude
    c = slicer.Source.get("src/canonicalize.rs")
    likely = c.find("fn is_likely_a_number")
    first = c.find_stmt("let preceding_siblings = as_element ( children [ 0 ] ) . preceding_siblings ( )", within=likely)
    seg = slicer.Span(c, first.start, likely.end - 1, "is_likely_a_number::fence_guard")
    run.uses(seg)
    crate = kani_run.Crate("c16guard", prelude.MINIDOM + GUARD_HARNESS.replace("GUARD_SEGMENT", seg.text))
    run.bound("D-C16-c", "the statements of is_likely_a_number after the comma test (fence guard) on the model DOM: candidate n , n with an optional left and right neighbour each a fence mo, a non-fence mo or an mi; "
              "neighbours as siblings of the candidate or of its mrow")
    run.assume("model DOM (MINIDOM); is_fence replaced by 'the text is a vertical bar' (operator dictionary not encoded here: C03)")
    return crate, dict(id="D-C16-c.fence_guard_needs_both_fences", harness="fence_guard_needs_both_fences", api=lambda v, o: api_guard(),
                       role=lambda v, o: "fence-guard-wrong-neighbour",
                       covers=["candidate between two fences reachable", "opening fence, then an operator after the candidate reachable"],
                       claim="the guard answers 'not a number' exactly when the candidate has a fence on both sides")
