"""C04 — Speech voices every operand.  Decided part: the only Rust code that *deletes* already produced
speech (optional-word elimination in ReplacementArray::replace_array_string::is_repetitive), plus the
integer kernels of number-to-words (see DESIGN.md §3 C04)."""
import os

import kani_run
import prelude
import slicer
from framework import mcprobe

HARNESS = r'''
const MARK: [u8; 3] = [0xEF, 0xA3, 0xBD];     // U+F8FD
const EXCL_MARKER_NOT_AT_START: bool = false;
fn build(buf: &mut [u8; 3 * NTOK]) -> usize {
    let ntok = sym::below(NTOK + 1);
    let mut len = 0;
    let mut t = 0;
    while t < NTOK {
        if t < ntok {
            match sym::below(4) {
                0 => { buf[len] = b'a'; len += 1; }
                1 => { buf[len] = b'b'; len += 1; }
                2 => { buf[len] = b' '; len += 1; }
                _ => { buf[len] = MARK[0]; buf[len+1] = MARK[1]; buf[len+2] = MARK[2]; len += 3; }
            }
        }
        t += 1;
    }
    len
}
fn is_mark(b: &[u8], i: usize) -> bool { i + 2 < b.len() && b[i] == MARK[0] && b[i+1] == MARK[1] && b[i+2] == MARK[2] }

// K-C04-a: when is_repetitive deletes something from `optional`, what it deletes is exactly
//          blanks* MARK word MARK blanks*   with `word` a proper suffix of prev.trim_end()  -- nothing else is lost.
HARNESS(optional_word_deletion_loses_nothing, UNW, [str::find => stubs::find, str::trim => stubs::trim_ascii, str::trim_start => stubs::trim_start_ascii, str::trim_end => stubs::trim_end_ascii]) {
    let mut b1 = [0u8; 3 * NTOK];
    let mut b2 = [0u8; 3 * NTOK];
    let l1 = build(&mut b1);
    let l2 = build(&mut b2);
    let prev = unsafe { core::str::from_utf8_unchecked(&b1[..l1]) };
    let optional = unsafe { core::str::from_utf8_unchecked(&b2[..l2]) };
    // documented precondition: markers surround one optional word => 0 or 2 markers in `optional`
    let mut n_mark = 0; let mut i = 0;
    while i < l2 { if is_mark(&b2[..l2], i) { n_mark += 1; } i += 1; }
    sym::assume(n_mark == 0 || n_mark == 2);
    if EXCL_MARKER_NOT_AT_START {
        // known finding C04/marker-not-at-start assumed away: only blanks precede the first marker
        let mut k = 0;
        while k < l2 && b2[k] == b' ' { k += 1; }
        sym::assume(n_mark == 0 || is_mark(&b2[..l2], k));
    }
    let r = is_repetitive(prev, optional);
    cover!(r.is_some(), "deletion branch reachable");
    cover!(r.is_none() && n_mark == 2, "kept branch with markers reachable");
    if let Some(r) = r {
        let ob = &b2[..l2];
        assert!(r.len() <= l2, "result longer than input");
        let cut = l2 - r.len();
        // r must be the tail of `optional`
        assert!(r.as_ptr() as usize == ob.as_ptr() as usize + cut, "result is not a suffix of the input");
        let mut k = 0;
        while k < cut && ob[k] == b' ' { k += 1; }
        assert!(is_mark(ob, k) && k + 3 <= cut, "text before the optional-word marker was deleted");
        k += 3;
        let w0 = k;
        while k < cut && !is_mark(ob, k) { k += 1; }
        let w1 = k;
        assert!(is_mark(ob, k) && k + 3 <= cut, "no closing marker inside the deleted part");
        k += 3;
        while k < cut { assert!(ob[k] == b' ', "text after the optional word was deleted"); k += 1; }
        // the word really repeats the end of prev
        let mut pe = l1;
        while pe > 0 && b1[pe-1] == b' ' { pe -= 1; }
        let wl = w1 - w0;
        assert!(wl <= pe, "optional word longer than previous text");
        let mut j = 0;
        while j < wl { assert!(b1[pe - wl + j] == ob[w0 + j], "deleted word does not repeat the previous text"); j += 1; }
    }
}
'''


def run_repo():
    import framework
    return framework.REPO


def api_marker_in_middle(vals=None, out=None):
    """Role-level API recipe: ClearSpeak puts an optional word in the middle of an exponent's speech."""
    expr = ("<math><msup><mi>x</mi><mrow><mn>3</mn><mo>+</mo><mfrac><mrow><mi>a</mi><mo>+</mo><mn>1</mn></mrow><mi>b</mi></mfrac></mrow></msup></math>")
    res = mcprobe([("pref", "SpeechStyle ClearSpeak"), ("pref", "Verbosity Verbose"), ("mathml", expr), "speech"])
    if res[-1][0] != "OK":
        return False, {"error": res}
    sp = res[-1][1]
    return ("3" not in sp), {"mathml": expr, "style": "ClearSpeak/Verbose", "speech": sp, "oracle": "speech must contain the literal 3"}


def role(vals, out):
    if "before the optional-word marker" in out:
        return "marker-not-at-start"
    if "after the optional word" in out:
        return "text-after-word"
    return "other"


def build(run):
    run.outside += ["that each rule's replacement mentions each child (YAML rules evaluated by the sxd_xpath interpreter)",
                    "7 languages x 2 styles x 3 verbosities of rule data"]
    # ---- Z-C04-d: with TTS=None pauses are the characters , and ; -- merging them must not reach into the words around them ---------------
    import rxsmt, tables
    from smt_run import smt_str
    tts = slicer.Source.get("src/tts.rs")
    mp = tts.find("impl TTS", "fn merge_pauses_none")
    pat, spx = tables.lazy_regex(tts, "MULTIPLE_PAUSES", within=mp)
    run.uses(mp, spx)
    run.bound("Z-C04-d", "the regex of merge_pauses_none (%r), matches of unbounded length" % pat)

    def w_pause(mdl, pat=pat):
        t = "2" + mdl["s"] + "5"
        caps = rxsmt.captures_real(pat, t)
        if caps and caps[0] is not None and any(ch not in ",;" for ch in caps[0]):
            out = rxsmt.replace_all_real(pat, ";", t)
            return ("pause-merge-reaches-into-text", "merge_pauses_none: %r matches %r inside %r, which becomes %r: characters that are not pause marks (a blank that separates tokens, and with it the decimal comma of a following literal such as ',5') are merged away" % (pat, caps[0], t, out), {"text": t, "result": out})
        return None
    run.smt("Z-C04-d.pause_merge_only_adjacent_marks", "(declare-const s String)\n(assert (str.in_re s %s))\n(assert (not (str.in_re s (re.+ (re.union (str.to_re \",\") (str.to_re \";\"))))))" % rxsmt.core_lang(pat),
            get=("s",), witness=w_pause, vacuity="(declare-const s String)\n(assert (str.in_re s %s))" % rxsmt.core_lang(pat),
            claim="every match of the pause-merging regex consists of , and ; only (adjacent pause marks): no blank, digit or letter can be merged away")

    sp = slicer.Source.get("src/speech.rs")
    f = sp.find("fn replace_array_string", "fn is_repetitive")
    consts = [sp.find("const OPTIONAL_INDICATOR"), sp.find("const OPTIONAL_INDICATOR_LEN")]
    run.uses(f, *consts)
    ntok = 4 if run.tier == "quick" else 5
    body = prelude.STR_STUBS + "\n".join(c.text for c in consts) + "\n" + f.text + \
        HARNESS.replace("NTOK", str(ntok)).replace("UNW", str(3 * ntok + 2))
    c = kani_run.Crate("c04rep", body)
    run.bound("K-C04-a", "prev, optional: every string of <= %d tokens over {a, b, space, U+F8FD} (<= %d bytes); 0 or 2 markers in `optional`; unwind %d with unwinding assertions"
              % (ntok, 3 * ntok, 3 * ntok + 2))
    run.assume("stubs under Kani: str::find(&str) as a byte loop; str::trim/trim_start/trim_end as ASCII-whitespace byte loops, equal to std on this alphabet (its only non-ASCII char U+F8FD is not White_Space); native replay uses real std",
               "precondition of is_repetitive: the optional-word marker U+F8FD occurs 0 or 2 times in the candidate string (documented: 'OPTIONAL_INDICATOR surrounds the optional text')")
    crate_o, lemmas_o = ordinal_lemmas(run)
    run.kani(crate_o, lemmas_o, timeout=300)
    crate_i, lemma_i = insert_lemma(run)
    run.kani(crate_i, [lemma_i], timeout=600)
    ordinal_parse_lemma(run)
    run.kani(c, [dict(id="K-C04-a.optional_word_deletion", harness="optional_word_deletion_loses_nothing",
                      covers=["deletion branch reachable", "kept branch with markers reachable"], role=role,
                      exclusions={"marker-not-at-start": "MARKER_NOT_AT_START"},
                      api=lambda v, o: api_marker_in_middle() if role(v, o) == "marker-not-at-start" else (True, "no API recipe for this role"),
                      claim="Some(r) => optional = blanks* MARK word MARK blanks* ++ r, word a suffix of prev.trim_end()")],
             timeout=300 if run.tier == "quick" else 1500)


# ======================================================================================================================
# K-C04-e: `insert:` (InsertChildren::replace, the default rule of every mrow) speaks EVERY selected child: the expanded replacement
#          array selects child 1..n, each once, in order, with the separator replacements between them
INS_SHIM = r"""
pub type Result<T> = core::result::Result<T, Error>;
#[derive(Debug)] pub struct Error;
macro_rules! bail { ($($t:tt)*) => { return Err(Error) }; }
/// format! replaced by a recorder of its LAST integer argument (the child index of "xpath[i]"); the text is not the subject
pub struct Fmt { idx: usize }
pub trait AsIdx { fn as_idx(&self) -> usize; }
impl AsIdx for usize { fn as_idx(&self) -> usize { *self } }
impl AsIdx for i32 { fn as_idx(&self) -> usize { *self as usize } }
impl AsIdx for &str { fn as_idx(&self) -> usize { 0 } }
impl AsIdx for String { fn as_idx(&self) -> usize { 0 } }
macro_rules! format { ($f:literal $(, $a:expr)*) => {{ #[allow(unused_mut, unused_assignments)] let mut idx = 0usize; $( idx = AsIdx::as_idx(&$a); )* Fmt { idx } }}; }
pub struct MyXPath { idx: usize }
impl MyXPath { pub fn new(f: Fmt) -> Result<MyXPath> { Ok(MyXPath { idx: f.idx }) } }
pub enum Replacement { XPath(MyXPath), Sep }
/// stand-in for Vec<Replacement>: checks the order of what is put into it instead of storing it
pub struct Rec { n_x: usize, n_sep: usize, good: bool, seps: usize }
pub struct Vec;
impl Vec { pub fn with_capacity(_n: usize) -> Rec { Rec { n_x: 0, n_sep: 0, good: true, seps: 0 } } }
impl Rec {
    pub fn len(&self) -> usize { self.seps }
    pub fn push(&mut self, r: Replacement) { if let Replacement::XPath(x) = r { self.good = self.good && x.idx == self.n_x + 1 && self.n_sep == self.n_x; self.n_x += 1; } else { self.good = false; } }
    pub fn extend_from_slice(&mut self, _s: &Rec) { self.good = self.good && self.n_sep + 1 == self.n_x; self.n_sep += 1; }
}
pub struct ReplacementArray { replacements: Rec }
static mut FINAL: (usize, usize, bool) = (0, 0, false);
impl ReplacementArray { pub fn replace(&self, _r: &mut Ctx, _m: El) -> Result<u8> { unsafe { FINAL = (self.replacements.n_x, self.replacements.n_sep, self.replacements.good); } Ok(0) } }
pub struct Rc0 { string: &'static str }
pub struct XP { rc: Rc0 }
pub struct InsertChildren { xpath: XP, replacements: ReplacementArray }
pub struct Ctx;
#[derive(Clone, Copy)] pub struct El;
#[derive(Clone, Copy)] pub struct Nodeset { n: usize }
impl Nodeset { pub fn size(&self) -> usize { self.n } pub fn document_order(&self) -> Nodeset { *self } pub fn len(&self) -> usize { self.n } }
impl InsertChildren {
    #[allow(unused_mut)]
    fn nodeset_arm(&self, rules_with_context: &mut Ctx, mathml: El, nodes: Nodeset) -> Result<u8> ARM_BLOCK
}
HARNESS(insert_selects_every_child, UNW) {
    let n = sym::usize();
    sym::assume(n <= NMAX);
    let ins = InsertChildren { xpath: XP { rc: Rc0 { string: "*" } }, replacements: ReplacementArray { replacements: Rec { n_x: 0, n_sep: 0, good: true, seps: 1 } } };
    let r = ins.nodeset_arm(&mut Ctx, El, Nodeset { n });
    cover!(r.is_ok() && n == NMAX, "largest row reachable");
    cover!(r.is_err(), "empty node set reachable");
    match r {
        Err(_) => assert!(n == 0, "insert: fails although children were selected"),
        Ok(_) => { let (n_x, n_sep, good) = unsafe { FINAL };
                   assert!(n_x == n, "insert: does not select every child of the node set: operands beyond some position are never spoken");
                   assert!(good && n_sep + 1 == n, "insert: children are not selected as 1..n in order with the separators between them"); }
    }
}
"""


def api_insert(vals=None, out=None):
    terms = list(range(101, 171))
    expr = "<math>" + "<mo>+</mo>".join("<mn>%d</mn>" % t for t in terms) + "</math>"
    res = mcprobe([("mathml", expr), "speech"])
    sp = res[-1][1] if res[-1][0] == "OK" else ""
    missing = [t for t in terms if str(t) not in sp]
    return bool(missing) or res[-1][0] != "OK", {"script": "speech of 101+102+...+170 (one mrow with 139 children) must contain every term", "missing": missing[:10], "status": res[-1][0]}


def insert_lemma(run):
    sp = slicer.Source.get("src/speech.rs")
    f = sp.find("impl InsertChildren", "fn replace")
    arm = sp.find_bracketed("Value :: Nodeset ( nodes ) => {", within=f)[0]
    block = arm.text[arm.text.index("{"):]
    run.uses(slicer.Span(sp, arm.start, arm.end, "speech.rs::InsertChildren::replace::Nodeset arm"))
    nmax = 72 if run.tier == "quick" else 300
    consts = slicer.referenced_consts(sp, block, INS_SHIM)      # a size the arm starts to take from a named constant is followed
    run.uses(*consts)
    crate = kani_run.Crate("c04ins", "\n".join(c.text for c in consts) + INS_SHIM.replace("ARM_BLOCK", block).replace("NMAX", str(nmax)).replace("UNW", str(nmax + 2)))
    run.bound("K-C04-e", "the Nodeset arm of InsertChildren::replace verbatim, every node-set size 0..%d (unwind %d with unwinding assertions)" % (nmax, nmax + 2))
    run.assume("K-C04-e: sxd_xpath Nodeset reduced to its size; Vec<Replacement> replaced by a recorder that checks the order of what is pushed; format! by a recorder of the child index; MyXPath::new succeeds; ReplacementArray::replace (the rule interpreter) is not run")
    return crate, dict(id="K-C04-e.insert_selects_every_child", harness="insert_selects_every_child", api=lambda v, o: api_insert(),
                       role=lambda v, o: "children-not-all-selected" if "does not select every child" in o else "insert-order",
                       covers=["largest row reachable", "empty node set reachable"], timeout=600,
                       claim="for a node set of n children the expanded array is xpath[1] (sep xpath[i])_{i=2..n}: every child is spoken once, in order")


# ======================================================================================================================
# Z-C04-g: ToOrdinal reads the digit string of a number with parse::<usize>(): every string that reaches that statement must be readable
def api_ordinal_big(number):
    res = mcprobe([("pref", "SpeechStyle ClearSpeak"), ("pref", "ClearSpeak_Fractions Ordinal"), ("mathml", "<math><mfrac><mn>3</mn><mn>%s</mn></mfrac></math>" % number), "speech",
                   ("pref", "ClearSpeak_Fractions Auto")])
    return any(r[0] in ("PANIC", "ABORT") for r in res), res[2:4]


def ordinal_parse_lemma(run):
    import re
    import rxsmt, tables
    x = slicer.Source.get("src/xpath_functions.rs")
    imp = x.find("impl ToOrdinal")
    irr = imp.find("fn compute_irregular_fractional_speech")
    conv = imp.find("fn convert")
    no_digit, spx = tables.lazy_regex(x, "NO_DIGIT", within=conv)
    run.uses(irr, spx)
    mp = re.search(r"number\s*\.\s*parse(?:::<usize>)?\(\)\s*\.\s*(\w+)", irr.text)
    if mp is None:
        # the integer may be read differently now: nothing to decide with this lemma, say so
        run.queries += 1
        return run.holds("Z-C04-g.ordinal_digits_readable", note="(compute_irregular_fractional_speech no longer parses the digit string)")
    mlen = re.search(r"number\.len\(\)\s*>\s*3\s*\*\s*numbers_large\.len\(\)", conv.text)
    if mlen is None:
        raise slicer.SliceError("ToOrdinal::convert: length guard `number.len() > 3*numbers_large.len()` not found")
    defs = open(os.path.join(run_repo(), "Rules", "Languages", "en", "definitions.yaml"), encoding="utf-8").read()
    mnl = re.search(r"NumbersLarge:\s*\[(.*?)\]", defs, re.S)
    n_large = len(re.findall(r'"[^"]*"', mnl.group(1)))
    maxlen = 3 * n_large
    allowed = "(re.* (re.diff re.allchar %s))" % rxsmt.core_lang(no_digit)        # what passes the `NO_DIGIT.is_match` guard
    run.bound("Z-C04-g", "every string of <= %d chars (3 x %d NumbersLarge words, en) that passes the %r guard of ToOrdinal::convert" % (maxlen, n_large, no_digit))
    handled = mp.group(1) not in ("unwrap", "expect")
    D = "(declare-const s String)\n(assert (str.in_re s %s))\n(assert (<= (str.len s) %d))\n" % (allowed, maxlen)

    def w_big(m):
        bad, res = api_ordinal_big(m["s"])
        return ("ordinal-digits-overflow", "ToOrdinal reads the denominator %r with parse::<usize>().unwrap(): get_spoken_text panics (ClearSpeak_Fractions=Ordinal)" % m["s"], {"number": m["s"], "api": res}) if bad else None
    if handled:
        run.queries += 1
        run.holds("Z-C04-g.ordinal_digits_readable.fits_usize", note="(parse failure is handled by .%s)" % mp.group(1))
    else:
        run.smt("Z-C04-g.ordinal_digits_readable.fits_usize", D + '(assert (str.in_re s (re.++ (re.range "1" "9") ((_ re.loop 20 20) (re.range "0" "9")) (re.* (re.range "0" "9")))))',
                get=("s",), witness=w_big, claim="no digit string that reaches `number.parse().unwrap()` is >= 10^20 (> usize::MAX)")


# ======================================================================================================================
# K-C04-c: ToOrdinal::convert leaves decimal literals alone and only strips the locale's block separators
ORD_SHIM = r'''
pub struct Prefs { period_locale: bool }
impl Prefs {
    /// the two separator preferences as set_separators produces them (decimal '.' / ',' with the matching block separators)
    fn pref_to_string(&self, name: &str) -> String {
        if name.len() == 17 { if self.period_locale { ".".to_string() } else { ",".to_string() } }                 // "DecimalSeparators"
        else if name.len() == 15 { if self.period_locale { ", ".to_string() } else { ". ".to_string() } }             // "BlockSeparators"
        else { assert!(false, "ToOrdinal asked for an unexpected preference"); String::new() }
    }
}
'''

ORD_HARNESS = r'''
/// the guard statements of ToOrdinal::convert, verbatim; returns the early-return value, or the cleaned digit string
fn ordinal_guard(number: &str, pref_manager: &Prefs) -> Option<String> {
    GUARD_STMTS
    Some(number)
}
CLEAN_NUMBER_FN
fn check(period_locale: bool, number: &str, want: &[u8]) {
    let p = Prefs { period_locale };
    let r = ordinal_guard(number, &p);
    match r { Some(s) => { assert!(s.as_bytes() == want, "ToOrdinal changed a decimal literal / did not strip exactly the block separators"); core::mem::forget(s); }
              None => assert!(false, "ToOrdinal gave up on a plain number") }
}
CASES
'''


def api_ordinal(vals=None, out=None):
    res = mcprobe([("pref", "Language es"), ("mathml", "<math><mroot><mi>x</mi><mn>2,5</mn></mroot></math>"), "speech",
                   ("pref", "Language en"), ("pref", "DecimalSeparator ."), ("mathml", "<math><mroot><mi>x</mi><mn>2.5</mn></mroot></math>"), "speech"])
    bad = res[2][0] != "OK" or "2,5" not in res[2][1] or res[6][0] != "OK" or "2.5" not in res[6][1]
    return bad, {"script": "es: root index 2,5 ; en: root index 2.5 ; speech must contain the literal", "results": [res[2], res[6]]}


def ordinal_lemmas(run):
    x = slicer.Source.get("src/xpath_functions.rs")
    conv = x.find("impl ToOrdinal", "fn convert")
    s1 = conv.find_stmt("let block_separators =")
    s2 = conv.find_stmt("let number = match clean_number")
    clean = conv.find("fn clean_number")
    guard = x.src[s1.start:s2.end]
    run.uses(slicer.Span(x, s1.start, s2.end, "xpath_functions.rs::ToOrdinal::convert::guard statements"), clean)
    cases = [("decimal_period", "true", "2.5", "2.5"), ("decimal_comma", "false", "2,5", "2,5"), ("blocks_period", "true", "1,234", "1234"),
             ("blocks_comma", "false", "1.234", "1234"), ("plain", "true", "12", "12")]
    case_text = "\n".join('HARNESS(ordinal_%s, 8, [str::contains => stubs::contains]) {\n    cover!(true, "reached");\n    check(%s, "%s", b"%s");\n}' % c for c in cases)
    body = prelude.STR_STUBS + ORD_SHIM + ORD_HARNESS.replace("GUARD_STMTS", guard).replace("CLEAN_NUMBER_FN", clean.text).replace("CASES", case_text)
    crate = kani_run.Crate("c04ord", body)
    run.bound("K-C04-c", "number literals 2.5 / 2,5 / 1,234 / 1.234 / 12 under the two separator settings set_separators produces (one harness per case, every path on literals)")
    run.assume("PreferenceManager::pref_to_string replaced by a two-entry table for DecimalSeparators / BlockSeparators; str::contains stubbed (byte loop; &String and char patterns recovered by size)")
    return crate, [dict(id="K-C04-c.ordinal_guard." + c[0], harness="ordinal_" + c[0], covers=["reached"], role=lambda v, o: "ordinal-changes-a-literal", api=lambda v, o: api_ordinal(),
                        claim="ToOrdinal::convert(%r) under decimal=%s keeps/cleans the literal to %r" % (c[2], "'.'" if c[1] == "true" else "','", c[3])) for c in cases]
