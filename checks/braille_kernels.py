"""Shared Engine-K crate for the braille highlight kernels (used by C07 and C20)."""
import os
import sys

sys.path.insert(0, os.path.join(os.path.dirname(os.path.abspath(__file__)), "..", "lib"))
import kani_run  # noqa: E402
import prelude  # noqa: E402
import slicer  # noqa: E402
from framework import mcprobe  # noqa: E402


def slices(run):
    b = slicer.Source.get("src/braille.rs")
    s = slicer.Source.get("src/speech.rs")
    sp = {
        "is_highlighted": b.find("fn is_highlighted"),
        "highlight": b.find("fn highlight"),
        "unhighlight": b.find("fn unhighlight"),
        "add_dots": s.find("fn highlight_braille_string", "fn add_dots_to_braille_char"),
        "i_start_nemeth": b.find("fn i_start_nemeth"),
        "i_start_ueb": b.find("fn i_start_ueb"),
        "check_for_typeform": b.find("fn check_for_typeform"),
        "UEB_PREFIXES": b.find("static UEB_PREFIXES"),
    }
    run.uses(*sp.values())
    return sp


HARNESSES = r'''
fn in_block(c: char) -> bool { (c as u32) >= 0x2800 && (c as u32) <= 0x28FF }
fn has_78(c: char) -> bool { in_block(c) && ((c as u32) & 0xC0) == 0xC0 }

// K-C07-b.1  what the speech side marks (dots 7+8 added) is what the braille side recognises
HARNESS(hl_marked_is_recognised, 2) {
    let c = sym::ch();
    sym::assume(in_block(c));
    let hack = sym::bool();
    cover!((c as u32) == 0x2801, "ordinary cell reachable");
    cover!(((c as u32) & 0x3F) == 0x3F, "full cell reachable");
    let m = add_dots_to_braille_char(c, hack);
    assert!(has_78(m) == is_highlighted(m), "cell with dots 7-8 is not recognised as highlighted (or vice versa)");
    assert!(is_highlighted(highlight(c)), "highlight(c) is not recognised by is_highlighted");
    if (c as u32) != 0x28FF { assert!(m == highlight(c), "speech.rs and braille.rs disagree on the highlighted form"); }
}

// K-C07-b.2  no cell counts as highlighted unless it carries both dots 7 and 8; unhighlight undoes highlight on 6-dot cells
HARNESS(hl_unhighlight_inverse, 2) {
    let c = sym::ch();
    sym::assume(in_block(c));
    cover!((c as u32) < 0x2840, "six-dot cell reachable");
    cover!(has_78(c), "already highlighted cell reachable");
    assert!(is_highlighted(c) == has_78(c), "is_highlighted differs from 'has dots 7 and 8'");
    if (c as u32) < 0x2840 {
        assert!(unhighlight(highlight(c)) == c, "unhighlight(highlight(c)) != c for a six-dot cell");
        assert!(unhighlight(c) == c, "unhighlight changes an unhighlighted six-dot cell");
    }
    let u = unhighlight(c);
    assert!(in_block(u) && !has_78(u) || !has_78(c), "unhighlight leaves dots 7-8 on");
}

// K-C07-b.3  every kernel returns a valid scalar value (they use from_u32_unchecked) and stays in the braille block;
//            outside the block they are the identity (except the documented Nemeth baseline 'b')
HARNESS(hl_valid_scalar_any_char, 2) {
    let c = sym::ch();
    let hack = sym::bool();
    cover!(!in_block(c), "non-braille char reachable");
    cover!((c as u32) > 0xFFFF, "astral char reachable");
    let h = highlight(c) as u32;
    let u = unhighlight(c) as u32;
    let a = add_dots_to_braille_char(c, hack) as u32;
    assert!(h < 0xD800 || (h > 0xDFFF && h <= 0x10FFFF), "highlight produced an invalid scalar value");
    assert!(u < 0xD800 || (u > 0xDFFF && u <= 0x10FFFF), "unhighlight produced an invalid scalar value");
    assert!(a < 0xD800 || (a > 0xDFFF && a <= 0x10FFFF), "add_dots produced an invalid scalar value");
    if in_block(c) {
        assert!(h >= 0x2800 && h <= 0x28FF && u >= 0x2800 && u <= 0x28FF && a >= 0x2800 && a <= 0x28FF, "left the braille block");
    } else {
        assert!(u == c as u32, "unhighlight changed a non-braille char");
        assert!(!is_highlighted(c), "non-braille char counted as highlighted");
        assert!(a == c as u32 || (hack && c == 'b' && a == 0x1D44F), "add_dots changed a non-braille char");
    }
}
'''

LOOKBACK = r'''
// K-C20-b  indicator look-back never reports more cells than the prefix holds
const CELLS: [char; 10] = ['⠠', '⠼', '⠸', '⠈', '⠨', '⠰', '⠘', '⠐', '⠆', '⠁'];
fn build_prefix(buf: &mut [u8; 3 * NPRE]) -> usize {
    let n = sym::below(NPRE + 1);
    let mut i = 0;
    while i < NPRE {
        if i < n {
            let k = sym::below(10);
            let mut tmp = [0u8; 4];
            let s = CELLS[k].encode_utf8(&mut tmp);
            buf[3*i] = s.as_bytes()[0]; buf[3*i+1] = s.as_bytes()[1]; buf[3*i+2] = s.as_bytes()[2];
        }
        i += 1;
    }
    n
}
HARNESS(lookback_nemeth_bounded, UNW) {
    let mut buf = [0u8; 3 * NPRE];
    let n = build_prefix(&mut buf);
    let prefix = unsafe { core::str::from_utf8_unchecked(&buf[..3*n]) };
    let first = CELLS[sym::below(10)];
    let r = i_start_nemeth(prefix, first);
    cover!(r == 2, "two indicator cells counted");
    cover!(n == NPRE, "longest prefix reachable");
    assert!(r <= n, "i_start_nemeth counts more indicator cells than the prefix holds (start_index - 3*r underflows)");
}
HARNESS(lookback_ueb_bounded, UNW) {
    let mut buf = [0u8; 3 * NPRE];
    let n = build_prefix(&mut buf);
    let prefix = unsafe { core::str::from_utf8_unchecked(&buf[..3*n]) };
    let r = i_start_ueb(prefix);
    cover!(r == 2, "two indicator cells counted");
    cover!(n == NPRE, "longest prefix reachable");
    assert!(r <= n, "i_start_ueb counts more indicator cells than the prefix holds (start_index - 3*r underflows)");
}
'''


def crate(run, name, lookback=False, npre=3):
    sp = slices(run)
    body = prelude.PHF_MOCK + "\n".join(sp[k].text for k in ("is_highlighted", "highlight", "unhighlight", "add_dots"))
    body += HARNESSES
    if lookback:
        body += "\n".join(sp[k].text for k in ("UEB_PREFIXES", "i_start_nemeth", "i_start_ueb", "check_for_typeform"))
        body += LOOKBACK.replace("NPRE", str(npre)).replace("UNW", str(3 * npre + 4))
    return kani_run.Crate(name, body, native_deps=prelude.PHF_NATIVE_DEP)


def role_cell(vals, out):
    c = int.from_bytes(bytes(vals[0]), "little") if vals else 0
    if (c | 0xC0) == 0x28FF:
        return "cell-with-highlighted-form-U+28FF"
    return "cell-U+%04X" % c


TEST_EXPR = ('<math><mi id="x">x</mi><mo id="e">≡</mo><mi id="y">∞</mi><mo id="p">+</mo><mi id="z">z</mi></math>')


def api_highlight_positions(vals=None, out=None):
    """API oracle for the highlight kernels: with EndPoints highlighting, get_braille_position() of a node must be
    (index of first, index of last) cell carrying dots 7+8 in get_braille(node); and the node under the last
    highlighted cell must be that node.  UEB '≡' = ⠸⠿ and '∞' = ⠼⠿ end in the full cell whose highlighted form is U+28FF."""
    script = [("pref", "BrailleCode UEB"), ("pref", "BrailleNavHighlight EndPoints"), ("mathml", TEST_EXPR)]
    ids = ["x", "e", "y", "p", "z"]
    for i in ids:
        script += [("braille", i), ("setnav", i + " 0"), "brpos"]
    res = mcprobe(script)
    bad = []
    if any(st != "OK" for st, _ in res):
        return False, {"error": res}
    for k, i in enumerate(ids):
        br = res[3 + 3 * k][1]
        pos = res[3 + 3 * k + 2][1]
        marked = [j for j, ch in enumerate(br) if 0x2800 <= ord(ch) <= 0x28FF and (ord(ch) & 0xC0) == 0xC0]
        if not marked:
            bad.append({"id": i, "braille": br, "problem": "no highlighted cell"})
            continue
        want = "%d\t%d" % (marked[0], marked[-1])
        if pos != want:
            bad.append({"id": i, "braille": br, "get_braille_position": pos, "cells_with_dots_7_8": want})
    return bool(bad), {"script": "UEB, EndPoints, " + TEST_EXPR, "mismatches": bad}


def api_nemeth_double_cap(vals=None, out=None):
    """Role-level API recipe for the Nemeth look-back: a node whose braille starts right after a two-cell prefix."""
    res = mcprobe([("pref", "BrailleCode Nemeth"), ("pref", "BrailleNavHighlight EndPoints"),
                   ("mathml", '<math><mtext id="a">AB</mtext></math>'), ("braille", "a"), ("setnav", "a 0"), "brpos"])
    bad = [r for r in res if r[0] != "OK"]
    return bool(bad), {"script": "Nemeth, EndPoints, <mtext id='a'>AB</mtext>, get_braille('a')", "results": res[3:]}
