"""Rust-aware textual item extractor ("slicer").

Cuts function / impl / static / const / struct / enum items, verbatim, out of /repo/src/*.rs so that
they can be compiled unmodified inside a generated harness crate (Engine K) or have their literal
tables and regexes parsed (Engine Z).  It is a lexer, not a parser: it understands comments
(nested block comments too), string / raw-string / byte-string literals, char literals vs lifetimes,
and brace/paren/bracket nesting.  An item that cannot be found raises SliceError; callers turn that
into exit 2 (ENCODING-FAILED), never into a pass and never into a VIOLATION.
"""
import hashlib
import os
import re

REPO = os.environ.get("VERIF_REPO", "/repo")


class SliceError(Exception):
    pass


class Tok:
    __slots__ = ("kind", "text", "start", "end")

    def __init__(self, kind, text, start, end):
        self.kind, self.text, self.start, self.end = kind, text, start, end

    def __repr__(self):
        return "Tok(%s,%r,%d)" % (self.kind, self.text, self.start)


_ident_re = re.compile(r"[A-Za-z_][A-Za-z0-9_]*")
_num_re = re.compile(r"[0-9][0-9A-Za-z_]*(\.[0-9][0-9A-Za-z_]*)?")


def lex(src):
    """Return list of tokens; comments are returned with kind 'comment' (callers usually skip them)."""
    toks = []
    i, n = 0, len(src)
    while i < n:
        c = src[i]
        if c.isspace():
            i += 1
            continue
        if src.startswith("//", i):
            j = src.find("\n", i)
            if j < 0:
                j = n
            toks.append(Tok("comment", src[i:j], i, j))
            i = j
            continue
        if src.startswith("/*", i):
            depth, j = 1, i + 2
            while j < n and depth:
                if src.startswith("/*", j):
                    depth += 1
                    j += 2
                elif src.startswith("*/", j):
                    depth -= 1
                    j += 2
                else:
                    j += 1
            toks.append(Tok("comment", src[i:j], i, j))
            i = j
            continue
        # raw strings r"..", r#".."#, br".."
        m = re.match(r"b?r(#*)\"", src[i:i + 12])
        if m:
            hashes = m.group(1)
            close = '"' + hashes
            j = src.find(close, i + len(m.group(0)))
            if j < 0:
                raise SliceError("unterminated raw string at %d" % i)
            j += len(close)
            toks.append(Tok("str", src[i:j], i, j))
            i = j
            continue
        if c == '"' or (c == "b" and i + 1 < n and src[i + 1] == '"'):
            j = i + (2 if c == "b" else 1)
            while j < n and src[j] != '"':
                j += 2 if src[j] == "\\" else 1
            j += 1
            toks.append(Tok("str", src[i:j], i, j))
            i = j
            continue
        if c == "'" or (c == "b" and i + 1 < n and src[i + 1] == "'"):
            k = i + (1 if c == "b" else 0)
            # char literal or lifetime?
            if k + 1 < n and src[k + 1] == "\\":
                j = k + 2
                # escape: \n, \', \\, \x41, \u{..}
                if src[j] == "u":
                    j = src.find("}", j) + 1
                elif src[j] == "x":
                    j += 3
                else:
                    j += 1
                if src[j] != "'":
                    raise SliceError("bad char literal at %d" % i)
                j += 1
                toks.append(Tok("char", src[i:j], i, j))
                i = j
                continue
            if k + 2 < n and src[k + 2] == "'":
                j = k + 3
                toks.append(Tok("char", src[i:j], i, j))
                i = j
                continue
            # lifetime
            m = _ident_re.match(src, k + 1)
            if m:
                toks.append(Tok("lifetime", src[i:m.end()], i, m.end()))
                i = m.end()
                continue
            raise SliceError("stray quote at %d" % i)
        m = _ident_re.match(src, i)
        if m:
            toks.append(Tok("ident", m.group(0), i, m.end()))
            i = m.end()
            continue
        m = _num_re.match(src, i)
        if m:
            # do not swallow the '..' of a range: "0..5"
            t = m.group(0)
            if m.group(1) is None and src.startswith("..", m.end() - 0) and False:
                pass
            # handle '1..' : _num_re's fractional part requires a digit after '.', so fine
            toks.append(Tok("num", t, i, m.end()))
            i = m.end()
            continue
        toks.append(Tok("punct", c, i, i + 1))
        i += 1
    return toks


OPEN = {"{": "}", "(": ")", "[": "]"}
CLOSE = {"}", ")", "]"}


class Span:
    def __init__(self, source, start, end, name=""):
        self.source, self.start, self.end, self.name = source, start, end, name

    @property
    def text(self):
        return self.source.src[self.start:self.end]

    @property
    def sha(self):
        return hashlib.sha256(self.text.encode()).hexdigest()[:16]

    def describe(self):
        line = self.source.src.count("\n", 0, self.start) + 1
        return {"item": self.name, "file": os.path.relpath(self.source.path, REPO), "line": line,
                "sha256_16": self.sha, "bytes": self.end - self.start}

    def body(self):
        """Span strictly inside the first top-level {...} of this item."""
        toks = [t for t in self.source.tokens_in(self.start, self.end) if t.kind != "comment"]
        for idx, t in enumerate(toks):
            if t.kind == "punct" and t.text == "{":
                close = self.source.match_close(t.start)
                return Span(self.source, t.end, close, self.name + "{}")
        raise SliceError("no body in " + self.name)

    def find(self, *segments):
        return self.source.find(*segments, within=self)

    def body_without_nested_fns(self, drop_use=True):
        """Text of this fn's body (between its outer braces) with the nested `fn` items (and optionally `use` statements) cut out:
        the function's own statements, verbatim, whatever their shape."""
        body = self.body()
        src = self.source
        code = src.tokens_in(body.start, body.end)
        cuts, depth, i = [], 0, 0
        while i < len(code):
            t = code[i]
            if t.kind == "punct" and t.text in OPEN:
                depth += 1
            elif t.kind == "punct" and t.text in CLOSE:
                depth -= 1
            elif depth == 0 and t.kind == "ident" and t.text == "fn":
                start = src._item_start(t.start)
                end = src._item_end(i, code)
                cuts.append((start, end))
                while i < len(code) and code[i].start < end:
                    i += 1
                continue
            elif depth == 0 and drop_use and t.kind == "ident" and t.text == "use":
                j = i
                while code[j].text != ";":
                    j += 1
                cuts.append((t.start, code[j].end))
                i = j + 1
                continue
            i += 1
        out, pos = [], body.start
        for a, b in sorted(cuts):
            out.append(src.src[pos:a])
            pos = b
        out.append(src.src[pos:body.end])
        return "".join(out)

    def find_all(self, seg):
        return self.source.find_all(seg, within=self)

    def find_expr(self, pattern):
        return self.source.find_expr(pattern, within=self)

    def find_stmt(self, pattern):
        return self.source.find_stmt(pattern, within=self)


class Source:
    _cache = {}

    def __init__(self, relpath):
        self.path = relpath if os.path.isabs(relpath) else os.path.join(REPO, relpath)
        try:
            with open(self.path, encoding="utf-8") as f:
                self.src = f.read()
        except OSError as e:
            raise SliceError("cannot read %s: %s" % (self.path, e))
        self.toks = lex(self.src)
        self.code = [t for t in self.toks if t.kind != "comment"]
        self._starts = [t.start for t in self.code]
        # matching table for brackets
        self._match = {}
        stack = []
        for t in self.code:
            if t.kind == "punct":
                if t.text in OPEN:
                    stack.append(t)
                elif t.text in CLOSE:
                    if not stack:
                        raise SliceError("unbalanced %s at %d in %s" % (t.text, t.start, self.path))
                    o = stack.pop()
                    self._match[o.start] = t.start
        if stack:
            raise SliceError("unclosed %s at %d in %s" % (stack[-1].text, stack[-1].start, self.path))

    @classmethod
    def get(cls, relpath):
        # no cross-run caching: one process = one check run, the file is read once per process
        key = os.path.join(REPO, relpath)
        if key not in cls._cache:
            cls._cache[key] = Source(relpath)
        return cls._cache[key]

    def match_close(self, open_pos):
        return self._match[open_pos]

    def tokens_in(self, start, end):
        import bisect
        lo = bisect.bisect_left(self._starts, start)
        hi = bisect.bisect_left(self._starts, end)
        return self.code[lo:hi]

    def whole(self):
        return Span(self, 0, len(self.src), os.path.basename(self.path))

    # ---- item location -------------------------------------------------------------------
    def _item_start(self, kw_pos):
        """Extend backwards over visibility, attributes and doc comments that precede the keyword."""
        start = kw_pos
        # walk back over tokens (including comments) that belong to the item header
        import bisect
        all_starts = [t.start for t in self.toks]
        idx = bisect.bisect_left(all_starts, kw_pos) - 1
        while idx >= 0:
            t = self.toks[idx]
            if t.kind == "ident" and t.text in ("pub", "unsafe", "const", "async", "extern", "crate", "static", "ref") :
                start = t.start
                idx -= 1
                continue
            if t.kind == "punct" and t.text == ")":
                # pub(crate)
                # find its open paren
                o = None
                for k, v in self._match.items():
                    if v == t.start:
                        o = k
                        break
                if o is not None and idx >= 2:
                    # token before '(' must be pub
                    j = idx
                    while j >= 0 and self.toks[j].start != o:
                        j -= 1
                    if j >= 1 and self.toks[j - 1].kind == "ident" and self.toks[j - 1].text == "pub":
                        start = self.toks[j - 1].start
                        idx = j - 2
                        continue
                break
            if t.kind == "punct" and t.text == "]":
                # attribute #[...]
                o = None
                for k, v in self._match.items():
                    if v == t.start:
                        o = k
                        break
                j = idx
                while j >= 0 and self.toks[j].start != o:
                    j -= 1
                if j >= 1 and self.toks[j - 1].kind == "punct" and self.toks[j - 1].text == "#":
                    start = self.toks[j - 1].start
                    idx = j - 2
                    continue
                break
            if t.kind == "comment" and (t.text.startswith("///") or t.text.startswith("/**")):
                start = t.start
                idx -= 1
                continue
            if t.kind == "comment":
                # an ordinary comment between attributes (e.g. trailing `// ...` after #[strum(..)]): skip it, but it
                # only becomes part of the item if an attribute / doc comment precedes it
                j = idx - 1
                while j >= 0 and self.toks[j].kind == "comment" and not self.toks[j].text.startswith("///"):
                    j -= 1
                if j >= 0 and ((self.toks[j].kind == "punct" and self.toks[j].text == "]") or self.toks[j].kind == "comment"):
                    idx -= 1
                    continue
            break
        return start

    def _item_end(self, kw_idx, code):
        """From the keyword token index in `code`, find the end of the item: matching '}' of the first
        '{' at nesting depth 0, or ';' at depth 0 if it comes first (static/const/type/fn decl)."""
        depth = 0
        i = kw_idx
        while i < len(code):
            t = code[i]
            if t.kind == "punct":
                if t.text == "{" and depth == 0:
                    close = self.match_close(t.start)
                    # a static/const with a block initialiser continues to ';'
                    kw = code[kw_idx].text
                    if kw in ("static", "const", "let", "type") :
                        # find ';' after close at depth 0
                        j = i
                        while code[j].start < close:
                            j += 1
                        i = j + 1
                        continue
                    return close + 1
                if t.text in ("(", "["):
                    close = self.match_close(t.start)
                    while code[i].start < close:
                        i += 1
                    i += 1
                    continue
                if t.text == ";" and depth == 0:
                    return t.end
            i += 1
        raise SliceError("no end for item at %d" % code[kw_idx].start)

    def find(self, *segments, within=None):
        """find("fn clean_mathml", "fn merge_prime_text") etc.  Segment forms:
             fn NAME | struct NAME | enum NAME | static NAME | const NAME | mod NAME | type NAME
             | trait NAME | impl HEADER (HEADER compared with generics stripped, e.g. "impl NavigationState",
             "impl Display for X") | macro NAME (NAME! { ... } invocation, e.g. lazy_static)
             | static ref NAME (inside lazy_static)."""
        span = within or self.whole()
        for seg in segments:
            span = self._find1(seg, span)
        return span

    def find_expr(self, pattern, within=None):
        """Statement/expression-level slice: `pattern` is a whitespace-separated token sequence (e.g.
        "match SHIFT_AMOUNTS . get ( & ch )"); returns the span from its first token to the matching '}' of the
        first '{' that follows at nesting depth 0 (a match / if / for / while / block expression)."""
        span = within or self.whole()
        want = [t.text for t in lex(pattern) if t.kind != "comment"]
        code = self.tokens_in(span.start, span.end)
        for i in range(len(code) - len(want)):
            if all(code[i + k].text == w for k, w in enumerate(want)):
                j = i + len(want)
                while j < len(code):
                    t = code[j]
                    if t.kind == "punct" and t.text in ("(", "["):
                        close = self.match_close(t.start)
                        while code[j].start < close:
                            j += 1
                    elif t.kind == "punct" and t.text == "{":
                        close = self.match_close(t.start)
                        # include `else { .. }` / `else if .. { .. }` chains
                        k = j
                        while code[k].start < close:
                            k += 1
                        if k + 1 < len(code) and code[k + 1].kind == "ident" and code[k + 1].text == "else":
                            j = k + 2
                            continue
                        return Span(self, code[i].start, close + 1, span.name + "::expr(" + pattern + ")")
                    elif t.kind == "punct" and t.text == ";":
                        break
                    j += 1
        raise SliceError("expression '%s' not found in %s" % (pattern, span.name or self.path))

    def find_bracketed(self, pattern, within=None):
        """Sub-expression slice: `pattern` must end with an opening bracket; returns from its first token to the matching close."""
        span = within or self.whole()
        want = [t.text for t in lex(pattern) if t.kind != "comment"]
        code = self.tokens_in(span.start, span.end)
        out = []
        for i in range(len(code) - len(want)):
            if all(code[i + k].text == w for k, w in enumerate(want)):
                o = code[i + len(want) - 1]
                if o.text not in OPEN:
                    raise SliceError("pattern must end with an opening bracket")
                out.append(Span(self, code[i].start, self.match_close(o.start) + 1, span.name + "::sub(" + pattern + ")"))
        if not out:
            raise SliceError("sub-expression '%s' not found in %s" % (pattern, span.name or self.path))
        return out

    def find_arm(self, pattern, within=None):
        """Match-arm slice: `pattern` is the arm head up to and including `=>`; returns the arm's value expression as a Span
        (a `{..}` block, or the expression up to the arm-separating comma)."""
        span = within or self.whole()
        want = [t.text for t in lex(pattern) if t.kind != "comment"]
        code = self.tokens_in(span.start, span.end)
        for i in range(len(code) - len(want)):
            if all(code[i + k].text == w for k, w in enumerate(want)):
                j = i + len(want)
                if code[j].text == "{":
                    return Span(self, code[j].start, self.match_close(code[j].start) + 1, span.name + "::arm(" + pattern + ")")
                k = j
                while k < len(code):
                    t = code[k]
                    if t.kind == "punct" and t.text in OPEN:
                        close = self.match_close(t.start)
                        while code[k].start < close:
                            k += 1
                    elif t.kind == "punct" and (t.text == "," or t.text in CLOSE):
                        return Span(self, code[j].start, t.start, span.name + "::arm(" + pattern + ")")
                    k += 1
        raise SliceError("match arm '%s' not found in %s" % (pattern, span.name or self.path))

    def find_stmt(self, pattern, within=None):
        """Statement-level slice: from the first token of `pattern` to the terminating ';' at nesting depth 0."""
        span = within or self.whole()
        want = [t.text for t in lex(pattern) if t.kind != "comment"]
        code = self.tokens_in(span.start, span.end)
        for i in range(len(code) - len(want)):
            if all(code[i + k].text == w for k, w in enumerate(want)):
                j = i
                while j < len(code):
                    t = code[j]
                    if t.kind == "punct" and t.text in OPEN:
                        close = self.match_close(t.start)
                        while code[j].start < close:
                            j += 1
                    elif t.kind == "punct" and t.text == ";":
                        return Span(self, code[i].start, t.end, span.name + "::stmt(" + pattern + ")")
                    j += 1
        raise SliceError("statement '%s' not found in %s" % (pattern, span.name or self.path))

    def find_all(self, seg, within=None):
        span = within or self.whole()
        out = []
        pos = span.start
        while True:
            try:
                s = self._find1(seg, Span(self, pos, span.end, span.name))
            except SliceError:
                break
            out.append(s)
            pos = s.end
        return out

    def _find1(self, seg, span):
        parts = seg.split(None, 1)
        kw, name = parts[0], parts[1].strip()
        code = self.tokens_in(span.start, span.end)
        if kw == "impl":
            want = re.sub(r"\s+", " ", name)
            for i, t in enumerate(code):
                if t.kind == "ident" and t.text == "impl":
                    # header up to '{' at depth 0 (angle brackets tracked)
                    j, hdr, adepth = i + 1, [], 0
                    while j < len(code) and not (code[j].kind == "punct" and code[j].text == "{" and adepth <= 0):
                        tt = code[j]
                        if tt.kind == "punct" and tt.text == "<":
                            adepth += 1
                        elif tt.kind == "punct" and tt.text == ">":
                            adepth -= 1
                        elif adepth == 0 and tt.kind == "ident":
                            if tt.text == "where":
                                break
                            hdr.append(tt.text)
                        j += 1
                    if " ".join(hdr) == want:
                        end = self._item_end(i, code)
                        return Span(self, self._item_start(t.start), end, span.name + "::impl " + want)
            raise SliceError("impl '%s' not found in %s" % (want, span.name or self.path))
        if kw == "macro":
            for i, t in enumerate(code):
                if t.kind == "ident" and t.text == name and i + 2 < len(code) and code[i + 1].text == "!" \
                        and code[i + 2].text in OPEN:
                    close = self.match_close(code[i + 2].start)
                    return Span(self, t.start, close + 1, span.name + "::" + name + "!")
            raise SliceError("macro '%s!' not found in %s" % (name, span.name or self.path))
        if kw == "static" and name.startswith("ref "):
            nm = name[4:].strip()
            for i, t in enumerate(code):
                if t.kind == "ident" and t.text == "static" and i + 2 < len(code) and code[i + 1].text == "ref" \
                        and code[i + 2].text == nm:
                    end = self._item_end(i, code)
                    return Span(self, self._item_start(t.start), end, span.name + "::static ref " + nm)
            raise SliceError("static ref '%s' not found in %s" % (nm, span.name or self.path))
        for i, t in enumerate(code):
            if t.kind == "ident" and t.text == kw and i + 1 < len(code):
                nxt = code[i + 1]
                k = i + 1
                if kw == "static" and nxt.text == "mut":
                    k += 1
                    nxt = code[k]
                if nxt.kind == "ident" and nxt.text == name:
                    # 'const fn' : keyword const followed by fn -> not a const item
                    end = self._item_end(i, code)
                    return Span(self, self._item_start(t.start), end, (span.name + "::" if span.name else "") + seg)
        raise SliceError("item '%s' not found in %s" % (seg, span.name or self.path))


# ---- literal helpers ---------------------------------------------------------------------
_esc_simple = {"n": "\n", "t": "\t", "r": "\r", "0": "\0", "\\": "\\", "'": "'", '"': '"'}


def unquote(lit):
    """Value of a Rust string or char literal token text."""
    if lit.startswith("b"):
        lit = lit[1:]
    if lit.startswith("r"):
        m = re.match(r'r(#*)"', lit)
        h = len(m.group(1))
        return lit[2 + h: len(lit) - 1 - h]
    body = lit[1:-1]
    out, i = [], 0
    while i < len(body):
        c = body[i]
        if c != "\\":
            out.append(c)
            i += 1
            continue
        e = body[i + 1]
        if e in _esc_simple:
            out.append(_esc_simple[e])
            i += 2
        elif e == "x":
            out.append(chr(int(body[i + 2:i + 4], 16)))
            i += 4
        elif e == "u":
            j = body.index("}", i)
            out.append(chr(int(body[i + 3:j].replace("_", ""), 16)))
            i = j + 1
        elif e == "\n":
            # line continuation: skip newline and following whitespace
            i += 2
            while i < len(body) and body[i] in " \t\n\r":
                i += 1
        else:
            raise SliceError("unknown escape \\%s" % e)
    return "".join(out)


def rust_str(s):
    """Rust string literal for an arbitrary python string."""
    out = ['"']
    for ch in s:
        o = ord(ch)
        if ch == '"':
            out.append('\\"')
        elif ch == "\\":
            out.append("\\\\")
        elif 0x20 <= o < 0x7F:
            out.append(ch)
        else:
            out.append("\\u{%x}" % o)
    out.append('"')
    return "".join(out)


def rust_char(ch):
    o = ord(ch)
    if ch == "'":
        return "'\\''"
    if ch == "\\":
        return "'\\\\'"
    if 0x20 <= o < 0x7F:
        return "'%s'" % ch
    return "'\\u{%x}'" % o


def called_helpers(source, text, defined_text, limit=8):
    """Top-level `fn NAME` items of `source` that `text` calls (NAME followed by '(') and that `defined_text` does not define:
    transitive, at most `limit`.  Lets a statement-level slice follow a condition that was factored out into a helper function."""
    import re
    out, seen, todo = [], set(), [text]
    defined = set(re.findall(r"\bfn\s+(\w+)", defined_text))
    while todo and len(out) < limit:
        t = todo.pop()
        for nm in re.findall(r"(?<![\.\w:])([a-z_][a-z0-9_]*)\s*\(", t):
            if nm in seen or nm in defined:
                continue
            seen.add(nm)
            try:
                sp = source.find("fn " + nm)
            except SliceError:
                continue
            # only items at the top level of the file (depth 0)
            depth = 0
            for tk in source.code:
                if tk.start >= sp.start:
                    break
                if tk.kind == "punct" and tk.text == "{":
                    depth += 1
                elif tk.kind == "punct" and tk.text == "}":
                    depth -= 1
            if depth != 0:
                continue
            out.append(sp)
            todo.append(sp.text)
    return out


def referenced_consts(source, text, defined_text, limit=8):
    """`const NAME` / `static NAME` items of `source` (any nesting level) whose ALL_CAPS name occurs in `text` and that `defined_text`
    does not define: lets a slice follow a literal that was factored out into a named constant."""
    import re
    out = []
    defined = set(re.findall(r"\b(?:const|static)\s+(?:ref\s+)?([A-Z][A-Z0-9_]*)", defined_text))
    for nm in sorted(set(re.findall(r"\b[A-Z][A-Z0-9_]{2,}\b", text))):
        if nm in defined or len(out) >= limit:
            continue
        for kw in ("const ", "static "):
            try:
                sp = source.find(kw + nm)
            except SliceError:
                continue
            if "lazy_static" in sp.text or "Regex" in sp.text or "phf" in sp.text:
                break
            out.append(sp)
            break
    return out
