"""Rust prelude fragments pasted into generated harness crates (Engine K).

STR_STUBS   byte-loop models of std string functions, used with #[kani::stub] (M3-M5 in DESIGN.md:
            the std two-way searcher and the Unicode whitespace tables make CBMC explode).
            They exist only under cfg(kani); the native replay runs the real std functions, so a wrong
            stub shows up as a non-reproducing counterexample (exit 2), never as a VIOLATION.
PHF_MOCK    `phf_set!` / `phf_map!` re-defined as macro_rules that expand the *verbatim table text of the
            slice* into `match` lookups (real phf hashing under CBMC is slow and gave a spurious
            counterexample, M11).  Natively the real phf crate is used.
"""

STR_STUBS = r'''
#[cfg(kani)]
#[allow(dead_code)]
pub mod stubs {
    use core::str::pattern::Pattern;
    fn is_ws(c: u32) -> bool {
        // Unicode White_Space
        (c >= 9 && c <= 13) || c == 0x20 || c == 0x85 || c == 0xA0 || c == 0x1680 || (c >= 0x2000 && c <= 0x200A)
            || c == 0x2028 || c == 0x2029 || c == 0x202F || c == 0x205F || c == 0x3000
    }
    // decode one UTF-8 scalar at byte offset i (s is valid UTF-8); returns (code point, byte length)
    fn dec(b: &[u8], i: usize) -> (u32, usize) {
        let b0 = b[i] as u32;
        if b0 < 0x80 { (b0, 1) }
        else if b0 < 0xE0 { (((b0 & 0x1F) << 6) | (b[i+1] as u32 & 0x3F), 2) }
        else if b0 < 0xF0 { (((b0 & 0x0F) << 12) | ((b[i+1] as u32 & 0x3F) << 6) | (b[i+2] as u32 & 0x3F), 3) }
        else { (((b0 & 0x07) << 18) | ((b[i+1] as u32 & 0x3F) << 12) | ((b[i+2] as u32 & 0x3F) << 6) | (b[i+3] as u32 & 0x3F), 4) }
    }
    pub fn trim_start(s: &str) -> &str {
        let b = s.as_bytes(); let mut n = 0;
        while n < b.len() { let (c, l) = dec(b, n); if !is_ws(c) { break; } n += l; }
        unsafe { core::str::from_utf8_unchecked(&b[n..]) }
    }
    pub fn trim_end(s: &str) -> &str {
        let b = s.as_bytes(); let mut n = b.len();
        while n > 0 {
            let mut k = n - 1;
            while k > 0 && (b[k] & 0xC0) == 0x80 { k -= 1; }
            let (c, _) = dec(b, k);
            if !is_ws(c) { break; }
            n = k;
        }
        unsafe { core::str::from_utf8_unchecked(&b[..n]) }
    }
    pub fn trim(s: &str) -> &str { trim_end(trim_start(s)) }
    /// ASCII-only trims: equal to std on every string whose non-ASCII chars are not White_Space
    /// (harnesses using them state that restriction on their alphabet)
    pub fn trim_start_ascii(s: &str) -> &str {
        let b = s.as_bytes(); let mut n = 0;
        while n < b.len() && (b[n] == b' ' || (b[n] >= 9 && b[n] <= 13)) { n += 1; }
        unsafe { core::str::from_utf8_unchecked(&b[n..]) }
    }
    pub fn trim_end_ascii(s: &str) -> &str {
        let b = s.as_bytes(); let mut n = b.len();
        while n > 0 && (b[n-1] == b' ' || (b[n-1] >= 9 && b[n-1] <= 13)) { n -= 1; }
        unsafe { core::str::from_utf8_unchecked(&b[..n]) }
    }
    pub fn trim_ascii(s: &str) -> &str { trim_end_ascii(trim_start_ascii(s)) }
    /// the pattern as a string: P is &str (16 bytes), &String (8 bytes) or char (4 bytes, encoded into `buf`)
    fn pat_str<'a, P: Pattern>(pat: &'a P, buf: &'a mut [u8; 4]) -> &'a str {
        let n = core::mem::size_of::<P>();
        if n == core::mem::size_of::<&str>() {
            unsafe { core::mem::transmute_copy::<P, &'a str>(pat) }
        } else if n == core::mem::size_of::<&String>() {
            let r: &'a String = unsafe { core::mem::transmute_copy::<P, &'a String>(pat) };
            r.as_str()
        } else {
            assert!(n == 4, "unsupported Pattern type in string stub");
            let c: char = unsafe { core::mem::transmute_copy::<P, char>(pat) };
            c.encode_utf8(buf)
        }
    }
    fn find_bytes(b: &[u8], p: &[u8]) -> Option<usize> {
        if p.len() > b.len() { return None; }
        let mut i = 0;
        while i + p.len() <= b.len() {
            let mut j = 0; let mut ok = true;
            while j < p.len() { if b[i+j] != p[j] { ok = false; break; } j += 1; }
            if ok { return Some(i); }
            i += 1;
        }
        None
    }
    /// str::find with a &str pattern
    pub fn find<P: Pattern>(s: &str, pat: P) -> Option<usize> {
        let mut buf = [0u8; 4];
        let p = pat_str(&pat, &mut buf);
        find_bytes(s.as_bytes(), p.as_bytes())
    }
    pub fn contains<P: Pattern>(s: &str, pat: P) -> bool {
        let mut buf = [0u8; 4];
        let p = pat_str(&pat, &mut buf);
        find_bytes(s.as_bytes(), p.as_bytes()).is_some()
    }
    pub fn starts_with<P: Pattern>(s: &str, pat: P) -> bool {
        let mut buf = [0u8; 4];
        let p = pat_str(&pat, &mut buf);
        let (b, p) = (s.as_bytes(), p.as_bytes());
        if p.len() > b.len() { return false; }
        let mut j = 0;
        while j < p.len() { if b[j] != p[j] { return false; } j += 1; }
        true
    }
    pub fn ends_with<P: Pattern>(s: &str, pat: P) -> bool {
        let mut buf = [0u8; 4];
        let p = pat_str(&pat, &mut buf);
        let (b, p) = (s.as_bytes(), p.as_bytes());
        if p.len() > b.len() { return false; }
        let off = b.len() - p.len();
        let mut j = 0;
        while j < p.len() { if b[off + j] != p[j] { return false; } j += 1; }
        true
    }
}
'''

# phf under Kani: verbatim table text -> match lookups, via macro_rules (keys must be literals, which they
# are everywhere in MathCAT).  Natively: the real crate.
PHF_MOCK = r'''
#[cfg(kani)]
#[allow(dead_code)]
pub mod phf {
    /// like phf_shared::PhfBorrow: lets `map.get("literal")` / `map.get(s: &str)` work for &'static str keys
    pub trait PhfBorrow<K> { fn with<R, F: FnOnce(&K) -> R>(&self, f: F) -> R; }
    impl<K> PhfBorrow<K> for K { fn with<R, F: FnOnce(&K) -> R>(&self, f: F) -> R { f(self) } }
    impl PhfBorrow<&'static str> for str {
        fn with<R, F: FnOnce(&&'static str) -> R>(&self, f: F) -> R {
            let s: &'static str = unsafe { core::mem::transmute::<&str, &'static str>(self) };   // only compared, never kept
            f(&s)
        }
    }
    pub struct Set<T: 'static> { pub f: fn(&T) -> bool, pub keys: &'static [T] }
    impl<T> Set<T> {
        pub fn contains<Q: ?Sized + PhfBorrow<T>>(&self, k: &Q) -> bool { k.with(|kk| (self.f)(kk)) }
        pub fn iter(&self) -> core::slice::Iter<'static, T> { self.keys.iter() }
        pub fn len(&self) -> usize { self.keys.len() }
    }
    pub struct Map<K: 'static, V: 'static> { pub f: fn(&K) -> Option<&'static V>, pub entries: &'static [(K, V)] }
    impl<K, V> Map<K, V> {
        pub fn get<Q: ?Sized + PhfBorrow<K>>(&self, k: &Q) -> Option<&'static V> { k.with(|kk| (self.f)(kk)) }
        pub fn contains_key<Q: ?Sized + PhfBorrow<K>>(&self, k: &Q) -> bool { k.with(|kk| (self.f)(kk)).is_some() }
        pub fn len(&self) -> usize { self.entries.len() }
    }
}
#[cfg(kani)]
macro_rules! phf_set {
    ($($k:literal),* $(,)?) => { phf::Set { f: |k| { match *k { $($k)|* => true, _ => false } }, keys: &[$($k),*] } };
}
#[cfg(kani)]
macro_rules! phf_map {
    ($($k:literal => $v:expr),* $(,)?) => { phf::Map { f: |k| { match *k { $($k => Some(&$v),)* _ => None } }, entries: &[$(($k, $v)),*] } };
}
#[cfg(not(kani))]
#[allow(unused_imports)]
use phf::{phf_set, phf_map};
'''

PHF_NATIVE_DEP = {"phf": '{ version = "0.11", features = ["macros"] }'}

# Fixed-capacity, heap-free stand-in for std Vec under Kani (Vec growth with symbolic lengths makes CBMC run out of
# memory, DESIGN.md M6).  Same observable behaviour for push/pop/len/is_empty/clear/index/last as long as at most CAP
# elements are held; a push beyond CAP is assumed away (harnesses keep lengths below CAP and carry cover witnesses).
# Natively (replay) the real std Vec is used.
MINIVEC = r'''
#[cfg(kani)]
#[allow(dead_code)]
pub mod minivec {
    pub const CAP: usize = 4;
    pub struct Vec<T> { items: [Option<T>; CAP], len: usize }
    impl<T> Vec<T> {
        pub fn new() -> Self { Vec { items: [None, None, None, None], len: 0 } }
        pub fn with_capacity(_n: usize) -> Self { Self::new() }
        pub fn push(&mut self, t: T) { kani::assume(self.len < CAP); self.items[self.len] = Some(t); self.len += 1; }
        pub fn pop(&mut self) -> Option<T> { if self.len == 0 { None } else { self.len -= 1; self.items[self.len].take() } }
        pub fn len(&self) -> usize { self.len }
        pub fn is_empty(&self) -> bool { self.len == 0 }
        pub fn clear(&mut self) { let mut i = 0; while i < CAP { self.items[i] = None; i += 1; } self.len = 0; }
        pub fn last(&self) -> Option<&T> { if self.len == 0 { None } else { self.items[self.len - 1].as_ref() } }
    }
    impl<T> core::ops::Index<usize> for Vec<T> {
        type Output = T;
        fn index(&self, i: usize) -> &T { assert!(i < self.len, "index out of bounds"); self.items[i].as_ref().unwrap() }
    }
    impl<T: Clone> Clone for Vec<T> {
        fn clone(&self) -> Self { Vec { items: [self.items[0].clone(), self.items[1].clone(), self.items[2].clone(), self.items[3].clone()], len: self.len } }
    }
}
#[cfg(kani)]
use minivec::Vec;
'''

# Tier D: a minimal model DOM for Engine K.  Nodes live in fixed static tables; an Element is an index.  Only what the sliced
# functions use is offered (children / replace_children / name / as_element / create_mathml_element / document).  Tree *shape* enters
# through explicit small bounds (MAXC children per node, MAXN nodes); kinds / emptiness are symbolic.  Natively the same model is used
# for the replay (the real sxd_document is exercised by the API replay through mcprobe).
MINIDOM = r'''
#[allow(dead_code, static_mut_refs)]
pub mod dom {
    use core::marker::PhantomData;
    pub const MAXN: usize = 16;
    pub const MAXC: usize = 8;
    pub static mut KIND: [u8; MAXN] = [0; MAXN];
    pub static mut NCH: [u8; MAXN] = [0; MAXN];
    pub static mut CH: [[u8; MAXC]; MAXN] = [[0; MAXC]; MAXN];
    pub static mut NNODES: usize = 0;
    pub static mut IDCODE: [u16; MAXN] = [0; MAXN];          // 0 = no id attribute; otherwise a code of the id string
    pub static mut PARENT: [u8; MAXN] = [255; MAXN];
    pub static mut TEXT: [u8; MAXN] = [0; MAXN];             // index into TEXTS (leaf text)
    pub const TEXTS: [&str; 26] = ["", ".", "\u{2026}", "+", "x", "1", "-", "-1", "arc", "sin", "arcsin", "|", "||", "\u{2016}", "\u{2212}", "\u{2212}1", "?", "AB", "A", "B", "\u{a0}", "_", "__", "___", "____", "\u{2032}"];
    pub const NAMES: [&str; 13] = ["mi", "none", "mprescripts", "mmultiscripts", "mtext", "mrow", "mn", "mo", "msub", "mfrac", "mphantom", "msup", "msubsup"];
    #[derive(Clone, Copy, PartialEq, Eq, Debug)] pub struct Element<'a> { pub id: u8, pub p: PhantomData<&'a ()> }
    #[derive(Clone, Copy, PartialEq, Eq, Debug)] pub enum ChildOfElement<'a> { Element(Element<'a>) }
    #[derive(Clone, Copy)] pub struct Document<'a>(pub PhantomData<&'a ()>);
    impl<'a> From<Element<'a>> for ChildOfElement<'a> { fn from(e: Element<'a>) -> Self { ChildOfElement::Element(e) } }
    pub fn is_leaf<'a>(e: Element<'a>) -> bool { let k = unsafe { KIND[e.id as usize] }; k == 0 || k == 1 || k == 4 || k == 6 || k == 7 }
    /// fixed-capacity vector that derefs to a slice (what `children()` returns, `replace_children` takes, and the parser's stack)
    pub struct KVec<T> { items: core::mem::MaybeUninit<[T; MAXC + 2]>, len: usize }
    impl<T> KVec<T> {
        pub fn new() -> Self { KVec { items: core::mem::MaybeUninit::uninit(), len: 0 } }
        pub fn with_capacity(_n: usize) -> Self { Self::new() }
        pub fn push(&mut self, t: T) { assert!(self.len < MAXC + 2, "model vector overflow"); unsafe { (self.items.as_mut_ptr() as *mut T).add(self.len).write(t); } self.len += 1; }
        pub fn remove(&mut self, i: usize) -> T { assert!(i < self.len, "removal index out of bounds"); let t = unsafe { (self.items.as_ptr() as *const T).add(i).read() }; self.drain(i..i + 1); t }
        pub fn append(&mut self, other: &mut KVec<T>) { let mut i = 0; while i < other.len { let t = unsafe { (other.items.as_ptr() as *const T).add(i).read() }; self.push(t); i += 1; } other.len = 0; }
        pub fn drain(&mut self, r: core::ops::Range<usize>) { assert!(r.start <= r.end && r.end <= self.len, "drain range out of bounds"); let k = r.end - r.start; let mut i = r.end;
            while i < self.len { unsafe { let t = (self.items.as_ptr() as *const T).add(i).read(); (self.items.as_mut_ptr() as *mut T).add(i - k).write(t); } i += 1; } self.len -= k; }
        pub fn pop(&mut self) -> Option<T> { if self.len == 0 { None } else { self.len -= 1; Some(unsafe { (self.items.as_ptr() as *const T).add(self.len).read() }) } }
    }
    pub struct KIter<T> { v: KVec<T>, i: usize }
    impl<T> Iterator for KIter<T> { type Item = T; fn next(&mut self) -> Option<T> { if self.i < self.v.len { let t = unsafe { (self.v.items.as_ptr() as *const T).add(self.i).read() }; self.i += 1; Some(t) } else { None } } }
    impl<T> IntoIterator for KVec<T> { type Item = T; type IntoIter = KIter<T>; fn into_iter(self) -> KIter<T> { KIter { v: self, i: 0 } } }
    impl<T> core::ops::Deref for KVec<T> { type Target = [T]; fn deref(&self) -> &[T] { unsafe { core::slice::from_raw_parts(self.items.as_ptr() as *const T, self.len) } } }
    impl<T> core::ops::DerefMut for KVec<T> { fn deref_mut(&mut self) -> &mut [T] { unsafe { core::slice::from_raw_parts_mut(self.items.as_mut_ptr() as *mut T, self.len) } } }
    pub fn new_node(kind: u8) -> Element<'static> { unsafe { let id = NNODES; assert!(id < MAXN, "model DOM full"); NNODES += 1; KIND[id] = kind; NCH[id] = 0; Element { id: id as u8, p: PhantomData } } }
    impl<'a> Element<'a> {
        pub fn children(&self) -> KVec<ChildOfElement<'a>> {
            let mut v = KVec::new();
            unsafe { let n = NCH[self.id as usize] as usize; let mut i = 0; while i < n { v.push(ChildOfElement::Element(Element { id: CH[self.id as usize][i], p: PhantomData })); i += 1; } }
            v
        }
        pub fn replace_children<I: IntoIterator<Item = C>, C: Into<ChildOfElement<'a>>>(&self, new: I) {
            unsafe { let mut i = 0; for c in new { assert!(i < MAXC, "model child list overflow"); let ChildOfElement::Element(e) = c.into(); CH[self.id as usize][i] = e.id; PARENT[e.id as usize] = self.id; i += 1; } NCH[self.id as usize] = i as u8; }
        }
        pub fn append_child<C: Into<ChildOfElement<'a>>>(&self, c: C) { let ChildOfElement::Element(e) = c.into(); self.append_child_id(e.id); }
        pub fn append_child_id(&self, c: u8) { unsafe { let n = NCH[self.id as usize] as usize; CH[self.id as usize][n] = c; NCH[self.id as usize] = (n + 1) as u8; PARENT[c as usize] = self.id; } }
        /// leaf text is kept as an index into TEXTS (the strings the harnesses use); any other non-empty text becomes "?"
        pub fn set_text(&self, t: &str) {
            let code: u8 = match t { "" => 0, "." => 1, "\u{2026}" => 2, "+" => 3, "x" => 4, "1" => 5, "-" => 6, "-1" => 7, "arc" => 8, "sin" => 9, "arcsin" => 10,
                "|" => 11, "||" => 12, "\u{2016}" => 13, "\u{2212}" => 14, "\u{2212}1" => 15, "AB" => 17, "A" => 18, "B" => 19, "\u{a0}" => 20, "_" => 21, "__" => 22, "___" => 23, "____" => 24, "\u{2032}" => 25, _ => 16 };
            unsafe { TEXT[self.id as usize] = code; }
        }
        pub fn following_siblings(&self) -> KVec<ChildOfElement<'a>> {
            let mut v = KVec::new();
            unsafe { let p = PARENT[self.id as usize] as usize; if p != 255 { let n = NCH[p] as usize; let mut seen = false; let mut i = 0;
                while i < n { if seen { v.push(ChildOfElement::Element(Element { id: CH[p][i], p: PhantomData })); } if CH[p][i] == self.id { seen = true; } i += 1; } } }
            v
        }
        pub fn preceding_siblings(&self) -> KVec<ChildOfElement<'a>> {
            let mut v = KVec::new();
            unsafe { let p = PARENT[self.id as usize] as usize; if p != 255 { let n = NCH[p] as usize; let mut i = 0;
                while i < n && CH[p][i] != self.id { v.push(ChildOfElement::Element(Element { id: CH[p][i], p: PhantomData })); i += 1; } } }
            v
        }
        pub fn parent_id(&self) -> u8 { unsafe { PARENT[self.id as usize] } }
        pub fn remove_from_parent(&self) {
            unsafe {
                let p = PARENT[self.id as usize] as usize;
                if p == 255 { return; }
                let n = NCH[p] as usize; let mut i = 0; let mut j = 0;
                while i < n { if CH[p][i] != self.id { CH[p][j] = CH[p][i]; j += 1; } i += 1; }
                NCH[p] = j as u8; PARENT[self.id as usize] = 255;
            }
        }
        pub fn document(&self) -> Document<'a> { Document(PhantomData) }
        /// only the "id" attribute is modelled; its value is kept as a code: (first byte << 8) | last byte  (injective on the ids the harnesses use)
        pub fn attribute(&self, nm: &str) -> Option<u16> { if nm.len() == 2 { let c = unsafe { IDCODE[self.id as usize] }; if c == 0 { None } else { Some(c) } } else { None } }
        pub fn set_attribute_value(&self, nm: &str, value: &str) { if nm.len() == 2 { unsafe { IDCODE[self.id as usize] = id_code(value); } } }
    }
    pub fn id_code(value: &str) -> u16 { ((value.as_bytes()[0] as u16) << 8) | (value.as_bytes()[value.len() - 1] as u16) }
    pub fn as_text<'a>(e: Element<'a>) -> &'static str { TEXTS[unsafe { TEXT[e.id as usize] } as usize] }
    pub fn name<'a>(e: &Element<'a>) -> &'static str { NAMES[unsafe { KIND[e.id as usize] } as usize] }
    pub fn as_element<'a>(c: ChildOfElement<'a>) -> Element<'a> { let ChildOfElement::Element(e) = c; e }
    pub fn get_parent<'a>(e: Element<'a>) -> Element<'a> { let p = unsafe { PARENT[e.id as usize] }; assert!(p != 255, "get_parent of a detached node"); Element { id: p, p: PhantomData } }
    pub fn set_leaf<'a>(e: Element<'a>, code: u8) { unsafe { TEXT[e.id as usize] = code; } }
    pub fn kind_of_name(nm: &str) -> u8 { match nm { "mi" => 0, "none" => 1, "mprescripts" => 2, "mmultiscripts" => 3, "mtext" => 4, "mrow" => 5, "mn" => 6, "mo" => 7, "msub" => 8, "mfrac" => 9, "mphantom" => 10, "msup" => 11, "msubsup" => 12, _ => 0 } }
    pub fn set_mathml_name<'a>(e: Element<'a>, nm: &str) { unsafe { KIND[e.id as usize] = kind_of_name(nm); } }
    pub fn create_mathml_element<'a>(_doc: &Document<'a>, nm: &str) -> Element<'a> {
        let kind = kind_of_name(nm);
        let e = new_node(kind); Element { id: e.id, p: PhantomData }
    }
}
use dom::{Element, ChildOfElement, Document, name, as_element, as_text, create_mathml_element, is_leaf, set_mathml_name, get_parent};
#[allow(unused_imports)] use dom::KVec as Vec;
'''


# generic stub for the blanket `impl<T: Display> ToString for T` (integer / float formatting does not get through CBMC in reasonable time):
# strings are copied, a usize n < 26 is rendered as the single letter 'a'+n (injective on the counts the harnesses reach)
TOSTRING_STUB = r'''
#[cfg(kani)]
fn to_string_stub<T: core::fmt::Display + ?Sized>(v: &T) -> String {
    let tn = core::any::type_name::<T>();
    if tn.len() == 4 {   // "char"
        let c: char = unsafe { *(v as *const T as *const char) };
        assert!(c >= ' ' && c <= '~', "char outside the stub's range");
        const PRINTABLE: &str = " !\"#$%&'()*+,-./0123456789:;<=>?@ABCDEFGHIJKLMNOPQRSTUVWXYZ[\\]^_`abcdefghijklmnopqrstuvwxyz{|}~";
        let i = c as usize - 0x20;
        String::from(&PRINTABLE[i..i + 1])
    } else if tn.len() == 5 {   // "usize"
        let x: usize = unsafe { *(v as *const T as *const usize) };
        assert!(x < 26, "count outside the stub's range");
        const LETTERS: &str = "abcdefghijklmnopqrstuvwxyz";
        String::from(&LETTERS[x..x + 1])
    } else {
        let n = core::mem::size_of_val(v);
        let b = unsafe { core::slice::from_raw_parts(v as *const T as *const u8, n) };
        String::from(unsafe { core::str::from_utf8_unchecked(b) })
    }
}
'''
