"""Common runner: lemmas (Engine K = Kani harness over source slices, Engine Z = SMT query over data
extracted from source), replay-before-report, known findings, evidence files, exit codes.

exit 0: every lemma held on everything explored (KNOWN-FINDING lines for listed, still reproducing findings)
exit 1: VIOLATION property=<id> replay=<path>  (replayed against the real code, not listed)
exit 2: inconclusive (encoding failed, timeout, vacuous harness, non-reproducing counterexample...)"""
import hashlib
import json
import os
import subprocess
import sys
import time
import traceback

VERIF = os.path.dirname(os.path.dirname(os.path.abspath(__file__)))
sys.path.insert(0, os.path.join(VERIF, "lib"))
import kani_run  # noqa: E402
import slicer  # noqa: E402
import smt_run  # noqa: E402

REPO = os.environ.get("VERIF_REPO", "/repo")
DEV_ONLY = os.environ.get("VERIF_DEV_ONLY", "")
BUILD = os.path.join(VERIF, ".build")
MCPROBE = os.path.join(BUILD, "mcprobe-target", "debug", "mcprobe")



def _lockfile():
    """Cargo.lock of the repository under check; it is an ignored file, so a `git worktree` snapshot of /repo has none: fall back to /repo's."""
    p = os.path.join(os.environ.get("VERIF_REPO", "/repo"), "Cargo.lock")
    return p if os.path.exists(p) else "/repo/Cargo.lock"


def log(*a):
    print(*a, flush=True)


# ------------------------------------------------------------------------------------------------
def build_mcprobe():
    """(Re)build the public-API replay driver against /repo's current working tree."""
    d = os.path.join(VERIF, "native", "mcprobe")
    lock = os.path.join(d, "Cargo.lock")
    try:
        import shutil
        shutil.copy(_lockfile(), lock)
    except OSError:
        pass
    env = dict(os.environ, CARGO_NET_OFFLINE="true", CARGO_TARGET_DIR=os.path.join(BUILD, "mcprobe-target"))
    p = subprocess.run(["cargo", "build", "--offline"], cwd=d, capture_output=True, text=True, env=env)
    if p.returncode != 0:
        raise RuntimeError("mcprobe build failed:\n" + p.stderr[-3000:])
    return MCPROBE


_mcprobe_built = False


def mcprobe(lines, timeout=120):
    """Run a script through the real public API.  Returns list of (status, text) per command line."""
    global _mcprobe_built
    if not _mcprobe_built:
        build_mcprobe()
        _mcprobe_built = True
    def esc(s):
        return s.replace("\\", "\\\\").replace("\n", "\\n").replace("\t", "\\t")
    inp = "\n".join(esc(l) if not isinstance(l, tuple) else l[0] + " " + esc(l[1]) for l in lines) + "\n"
    env = dict(os.environ, MCPROBE_RULES=os.path.join(REPO, "Rules"))
    p = subprocess.run([MCPROBE], input=inp, capture_output=True, text=True, timeout=timeout, env=env)
    out = []
    for l in p.stdout.splitlines():
        st, _, rest = l.partition(" ")
        try:
            out.append((st, json.loads(rest) if rest else ""))
        except ValueError:
            out.append((st, rest))
    if len(out) < len([l for l in lines if l]):
        out.append(("ABORT", "mcprobe died: rc=%s %s" % (p.returncode, p.stderr[-500:])))
    return out


# ------------------------------------------------------------------------------------------------
class KnownFindings:
    """known_findings.txt (committed, never written at run time).
         finding: property=C12 key=<lemma>/<role> <what fails>
         fixed: property=C07 <commit> <what failed>          (suppresses nothing)"""

    def __init__(self):
        self.findings = {}
        path = os.path.join(VERIF, "known_findings.txt")
        if os.path.exists(path):
            for l in open(path, encoding="utf-8"):
                l = l.strip()
                if l.startswith("finding:"):
                    parts = l.split(None, 3)
                    prop = parts[1].split("=", 1)[1]
                    key = parts[2].split("=", 1)[1]
                    self.findings[(prop, key)] = parts[3] if len(parts) > 3 else ""

    def lookup(self, prop, key):
        return self.findings.get((prop, key))


class Outcome:
    def __init__(self, lemma_id, status, **kw):
        self.lemma_id, self.status = lemma_id, status  # holds | violated | known | inconclusive
        self.info = kw


class Run:
    def __init__(self, prop, tier, seed):
        self.prop, self.tier, self.seed = prop, tier, seed
        self._defer = None
        self.t0 = time.time()
        self.known = KnownFindings()
        self.outcomes = []
        self.functions = {}
        self.assumptions = []
        self.samples = []
        self.queries = 0
        self.nontrivial = 0
        self.solver_time = 0.0
        self.violations = []   # (lemma, key, replay_path)
        self.known_hits = []
        self.inconclusive = []
        self.bounds = {}
        self.outside = []
        self.crates = []
        self.replay = None          # payload of a replay file (bin/check <id> --replay <path>)
        self.replayed = False
        self.deferred = []          # lemma ids left to the thorough tier (quick runs only)
        self._groups = {}           # cover witnesses of case-split lemmas: group id -> {cover: satisfied by some case}

    # -- bookkeeping ---------------------------------------------------------------------------
    def uses(self, *spans):
        for s in spans:
            d = s.describe()
            self.functions[d["item"]] = d

    def assume(self, *texts):
        for t in texts:
            if t not in self.assumptions:
                self.assumptions.append(t)

    def bound(self, lemma, text):
        self.bounds[lemma] = text

    def sample(self, obj):
        if len(self.samples) < 40:
            self.samples.append(obj)

    def write_replay(self, lemma, payload):
        os.makedirs(os.path.join(VERIF, "replays"), exist_ok=True)
        h = hashlib.sha256(json.dumps(payload, sort_keys=True).encode()).hexdigest()[:10]
        import re
        path = os.path.join(VERIF, "replays", "%s-%s-%s.json" % (self.prop, re.sub(r"[^A-Za-z0-9._-]+", "_", lemma).strip("_"), h))
        payload = dict(payload, property=self.prop, lemma=lemma)
        with open(path, "w") as f:
            json.dump(payload, f, indent=1, ensure_ascii=False)
        return path

    # -- verdict recording ---------------------------------------------------------------------
    def holds(self, lemma, **info):
        self.outcomes.append(Outcome(lemma, "holds", **info))
        log("  [holds] %s %s" % (lemma, info.get("note", "")))

    def inconclusive_(self, lemma, why):
        self.outcomes.append(Outcome(lemma, "inconclusive", why=why))
        self.inconclusive.append((lemma, why))
        log("  [INCONCLUSIVE] %s: %s" % (lemma, why))

    def violated(self, lemma, role, what, payload):
        """A counterexample that has been replayed against the real code.  `role` identifies the failing
        input by role (not raw bytes); if property+lemma/role is listed in known_findings.txt it is a
        KNOWN-FINDING, otherwise a VIOLATION."""
        key = "%s/%s" % (lemma.split("[")[0], role)
        listed = self.known.lookup(self.prop, key)
        if listed is not None:
            if key not in [k for (_, k) in self.known_hits]:
                log("KNOWN-FINDING: property=%s %s (%s)" % (self.prop, listed or what, key))
            self.known_hits.append((lemma, key))
            self.outcomes.append(Outcome(lemma, "known", key=key, what=what))
            return True
        path = self.write_replay(lemma, dict(payload, role=role, what=what))
        self.violations.append((lemma, key, path))
        self.outcomes.append(Outcome(lemma, "violated", key=key, what=what, replay=path))
        log("VIOLATION property=%s replay=%s" % (self.prop, path))
        log("  lemma=%s role=%s: %s" % (lemma, role, what))
        return False

    # -- Engine K ------------------------------------------------------------------------------
    def kani(self, crate, lemmas, timeout=None, parallel=None):
        """lemmas: list of dict(id, harness, covers=[...], role=fn(res, replay_out)->str, api=fn(res)->(bool, detail)|None,
        claim=str).  Runs all harnesses in parallel, then replays failures natively."""
        timeout = timeout or (600 if self.tier == "quick" else 900)      # per harness; generous on purpose: a slower machine must not turn a lemma that holds into exit 2
        if DEV_ONLY:      # development aid (never set by a registered command): run only the lemmas whose id contains the substring; no evidence is written
            lemmas = [l for l in lemmas if DEV_ONLY in l["id"]]
            if not lemmas:
                return
        if self.tier == "quick" and self.replay is None:
            # lemmas marked deep=True are discharged in the thorough tier only (measured > ~100 s of solver time per harness on the reference machine:
            # the quick command has to finish on every change); the quick run names them in its output and evidence and gives no verdict on them
            for l in lemmas:
                if l.get("deep"):
                    self.deferred.append(l["id"])
                    log("  [deferred] %s: discharged by the thorough tier only" % l["id"])
            lemmas = [l for l in lemmas if not l.get("deep")]
            if not lemmas:
                return []
        self.crates.append(crate)
        if self.replay is not None:
            # replay mode: no solver; the recorded values are fed to the same harness, natively, on the current tree
            for l in lemmas:
                if l["id"].split("[")[0] != self.replay.get("lemma", "").split("[")[0] or self.replay.get("engine") != "kani":
                    continue
                if self.replay.get("harness") not in (None, l["harness"]):      # case-split lemmas: the recorded values belong to one case's harness
                    continue
                self.replayed = True
                vals = self.replay["values"]
                verdict, out = crate.native_replay(l["harness"], vals, release=False)
                log("REPLAY lemma=%s native=%s" % (l["id"], verdict))
                log(out[-800:])
                if verdict == "reproduced":
                    api = l["api"](vals, out) if l.get("api") else None
                    if api is not None:
                        log("REPLAY api_reproduced=%s %s" % (api[0], json.dumps(api[1], ensure_ascii=False)[:1200]))
                    role = l["role"](vals, out) if l.get("role") else "any"
                    self.queries += 1
                    self.nontrivial += 1
                    self.violated(l["id"], role, "replayed counterexample reproduces on the current tree", {"engine": "kani", "harness": l["harness"], "values": vals})
                else:
                    self.queries += 1
                    self.holds(l["id"], note="(recorded counterexample does not reproduce on the current tree: %s)" % verdict)
            return []
        if self._defer is not None and self.replay is None:      # inside `with run.parallel():` -- queued, discharged together when the block ends
            self._defer.append((crate, lemmas, timeout))
            return []
        return self._kani_batch([(crate, lemmas, timeout)], parallel)

    def parallel(self):
        """`with run.parallel():` -- the run.kani() calls inside are queued and their harnesses (of all crates) run concurrently;
        verdict logic and evidence are the same as for sequential calls, only the wall time changes."""
        run = self

        class _P:
            def __enter__(self_p):
                run._defer = []

            def __exit__(self_p, et, ev, tb):
                batch, run._defer = run._defer, None
                if batch:      # also when a later slice failed: what was encoded before it is still decided
                    run._kani_batch(batch)
                return False
        return _P()

    def _kani_batch(self, batch, parallel=None):
        all_jobs, metas = [], []
        for crate, lemmas, timeout in batch:
            if self.tier == "quick":
                # floor for the per-harness cap of the quick tier: a harness that needs 400 s on the reference machine was seen to need 600+ s on a slower,
                # cold one; a cap that fires on a lemma that holds is exit 2 on the unchanged tree, which is worse than a long run.  What keeps the quick
                # command short is the choice of lemmas (deep=True ones are left to the thorough tier), not the cap
                for l in lemmas:
                    l["timeout"] = max(l.get("timeout", timeout), 1200)
            jobs = [(crate, l["harness"], {"timeout": l.get("timeout", timeout)}) for l in lemmas]
            # listed known findings of a lemma need the lemma discharged again with their roles assumed away: start those
            # variants together with the base run (same verdict logic, only the wall time changes)
            pre = []
            for l in lemmas:
                excl = l.get("exclusions") or {}
                listed = [sw for role, sw in excl.items() if self.known.lookup(self.prop, "%s/%s" % (l["id"], role)) is not None]
                for n in range(1, len(listed) + 1):
                    for combo in self._orders(listed, n):
                        c2 = crate.variant("x" + "".join(x[0] for x in combo) + str(n), list(combo))
                        self.crates.append(c2)
                        pre.append((l, tuple(sorted(combo)), c2))
            jobs += [(c2, l["harness"], {"timeout": l.get("timeout", timeout)}) for (l, _, c2) in pre]
            metas.append((crate, lemmas, pre, len(all_jobs), len(jobs)))
            all_jobs += jobs
        if parallel is None and self.tier == "thorough":      # deeper bounds: fewer concurrent CBMC processes (12 GB address space each, 62 GB machine)
            parallel = int(os.environ.get("VERIF_JOBS", "5"))
        results = kani_run.run_all(all_jobs, parallel)
        if not hasattr(self, "_pre"):
            self._pre = {}
        out = []
        for crate, lemmas, pre, off, n in metas:
            res = results[off:off + n]
            self._pre.update({(l["id"], combo): (c2, r) for (l, combo, c2), r in zip(pre, res[len(lemmas):])})
            for l, r in zip(lemmas, res[:len(lemmas)]):
                self._kani_result(crate, l, r)
            out += res
        return out

    @staticmethod
    def _orders(items, n):
        import itertools
        return [c for c in itertools.combinations(items, n)]

    def _kani_result(self, crate, l, r):
        self.queries += 1
        self.solver_time += r.get("verification_time_s") or 0.0
        lid = l["id"]
        summary = {"lemma": lid, "engine": "kani", "harness": r["harness"], "status": r["status"],
                   "checks": r["n_checks"], "solver_s": r.get("verification_time_s"), "wall_s": r["wall_s"],
                   "covers": r["covers"], "stubs": r["stubs"], "claim": l.get("claim", "")}
        self.sample(summary)
        want = l.get("covers", [])
        if r["status"] == "success":
            missing = [c for c in want if r["covers"].get(c) != "SATISFIED"]
            # case-split lemmas: a witness listed in `group_covers` has to be satisfied by at least one harness of the group (checked in finish()),
            # not by every case; the covers in `covers` stay mandatory for every case
            grp = l.get("group_covers")
            if grp:
                g = self._groups.setdefault(grp[0], {c: False for c in grp[1]})
                for c in grp[1]:
                    g[c] = g[c] or r["covers"].get(c) == "SATISFIED"
            unsat = [c for c, s in r["covers"].items() if s != "SATISFIED" and not (grp and c in grp[1])]
            if missing or unsat:
                return self.inconclusive_(lid, "vacuity guard: cover witnesses not satisfied: %s" % (missing + unsat))
            if want or r["covers"]:
                self.nontrivial += 1
            return self.holds(lid, note="(%d checks, %.2fs solver, covers %d/%d)" % (
                r["n_checks"], r.get("verification_time_s") or 0, len(r["covers"]), len(r["covers"])))
        if r["status"] == "failed":
            if l.get("expect_fail"):   # reachability twin: assert!(false) must be reported violated
                self.nontrivial += 1
                return self.holds(lid, note="(reachability twin failed as required)")
            real = [c for c in r["failed_checks"] if "unwinding assertion" not in c["desc"]]
            if not real:
                return self.inconclusive_(lid, "unwinding assertion failed: the #[kani::unwind] bound is too small for this harness (%s)" % r["failed_checks"][:2])
            cands = [p["values"] for p in r.get("playbacks", [])]
            if not cands:
                return self.inconclusive_(lid, "failed without concrete values: %s" % r["failed_checks"][:3])
            for vals in cands:
                v_dev, out_dev = crate.native_replay(r["harness"], vals, release=False)
                if v_dev != "reproduced":
                    continue
                v_rel, out_rel = crate.native_replay(r["harness"], vals, release=True)
                role = l["role"](vals, out_dev) if l.get("role") else "any"
                what = "; ".join(c["desc"] for c in r["failed_checks"][:3]) or "assertion failed"
                payload = {"engine": "kani", "harness": r["harness"], "values": vals, "native_dev": out_dev[-600:],
                           "native_release": v_rel, "failed_checks": r["failed_checks"][:5]}
                if l.get("api"):
                    ok, detail = l["api"](vals, out_dev)
                    payload["api_replay"] = detail
                    if not ok:
                        return self.inconclusive_(lid, "counterexample reproduces on the real slice but not through the public API recipe: %s" % (detail,))
                self.nontrivial += 1
                listed = self.violated(lid, role, what, payload)
                if listed:
                    # a listed finding must not mask other violations of the same lemma: discharge the lemma again
                    # with exactly this role assumed away (DESIGN.md 2.5)
                    sw = (l.get("exclusions") or {}).get(role)
                    done = l.setdefault("_excluded", [])
                    if sw is None or sw in done or len(done) >= 4:
                        return self.inconclusive_(lid, "known finding '%s' has no exclusion switch; cannot show the rest of the lemma" % role)
                    done.append(sw)
                    base_id = lid.split("[")[0]
                    cached = getattr(self, "_pre", {}).get((base_id, tuple(sorted(done))))
                    if cached:
                        c2, r2 = cached
                    else:
                        c2 = crate.variant("x%d" % len(done), done)
                        self.crates.append(c2)
                        r2 = c2.run(l["harness"], timeout=l.get("timeout", 900))
                    l2 = dict(l, id=base_id + "[excluding " + ",".join(done) + "]")
                    return self._kani_result(c2, l2, r2)
                return listed
            return self.inconclusive_(lid, "counterexample did not reproduce natively (stub/mock suspected): %s" % (
                r["failed_checks"][:2],))
        return self.inconclusive_(lid, "kani %s (exit %s): %s" % (r["status"], r["exit"], r.get("log_tail", "")[-800:]))

    # -- Engine Z ------------------------------------------------------------------------------
    def smt(self, lid, query, get=(), claim="", witness=None, timeout=60, vacuity=None, solver="z3-new", cross=None, vacuous_ok=False):
        """Existential query: unsat => lemma holds.  sat => `witness(model)` must replay it against the real
        code and return (role, what, payload) or None when it does not reproduce.
        vacuity: a query (the domain without the negated lemma) that must be sat."""
        if DEV_ONLY and DEV_ONLY not in lid:
            return None
        if self.replay is not None:
            if lid.split("[")[0] != self.replay.get("lemma", "").split("[")[0] or "model" not in self.replay or witness is None:
                return None
            self.replayed = True
            w = witness(self.replay["model"])
            self.queries += 1
            log("REPLAY lemma=%s model=%s reproduces=%s" % (lid, self.replay["model"], w is not None))
            if w is None:
                self.holds(lid, note="(recorded witness does not reproduce on the current tree)")
                return None
            self.nontrivial += 1
            self.violated(lid, w[0], w[1], dict(w[2], engine=solver, model=self.replay["model"]))
            return self.replay["model"]
        r = smt_run.solve(query, get=get, solver=solver, timeout=timeout)
        self.queries += 1
        self.solver_time += r["time_s"]
        self.sample({"lemma": lid, "engine": solver, "status": r["status"], "solver_s": r["time_s"], "claim": claim,
                     "model": {k: (v if not isinstance(v, str) else v[:80]) for k, v in r["model"].items()}})
        if vacuity is not None:
            rv = smt_run.solve(vacuity, solver=solver, timeout=timeout)
            self.queries += 1
            self.solver_time += rv["time_s"]
            if rv["status"] == "unsat" and vacuous_ok:
                self.outcomes.append(Outcome(lid, "holds", note="vacuous"))
                log("  [holds] %s (domain empty: nothing to check)" % lid)
                return None
            if rv["status"] != "sat":
                return self.inconclusive_(lid, "vacuity guard: domain query is %s" % rv["status"])
        if r["status"] == "unsat":
            if cross and self.tier == "thorough":
                for s2, q2 in cross:
                    r2 = smt_run.solve(q2, solver=s2, timeout=timeout)
                    self.queries += 1
                    self.solver_time += r2["time_s"]
                    if r2["status"] == "sat":
                        return self.inconclusive_(lid, "solver disagreement: %s says sat" % s2)
            self.nontrivial += 1 if vacuity is not None else 0
            self.holds(lid, note="(unsat, %.2fs)" % r["time_s"])
            return None
        if r["status"] == "sat":
            if witness is None:
                return self.inconclusive_(lid, "sat but no replay recipe: %s" % r["model"])
            w = witness(r["model"])
            if w is None:
                return self.inconclusive_(lid, "solver witness did not reproduce on the real code: %s" % r["model"])
            role, what, payload = w
            self.nontrivial += 1
            self.violated(lid, role, what, dict(payload, engine=solver, model=r["model"]))
            return r["model"]
        return self.inconclusive_(lid, "solver answered %s: %s" % (r["status"], r["raw"][-300:]))

    # -- finish --------------------------------------------------------------------------------
    def finish(self, level="model_checking", explanation=""):
        for c in self.crates:
            c.cleanup()
        for gid, g in self._groups.items():
            miss = [c for c, ok in g.items() if not ok]
            if miss and not any(o.lemma_id.startswith(gid) and o.status != "holds" for o in self.outcomes):
                self.inconclusive_(gid, "vacuity guard: no case of the split satisfies the cover witnesses %s" % miss)
        wall = round(time.time() - self.t0, 2)
        cov = {
            "evaluations": self.queries,
            "distinct_nontrivial": self.nontrivial,
            "rule": "one evaluation = one solver obligation (a Kani/CBMC harness over real source slices, or an SMT query over "
                    "tables/regexes extracted from the source on this run); non-trivial = its vacuity guard passed (all "
                    "kani::cover! witnesses satisfied / domain query sat) or it produced a replayed counterexample",
            "samples": self.samples,
            "explanation": explanation,
            "functions_encoded": list(self.functions.values()),
            "bounds": self.bounds,
            "outside_the_claim": self.outside,
            "queries_discharged": self.queries,
            "solver_time_s": round(self.solver_time, 2),
            "lemmas": [dict(lemma=o.lemma_id, status=o.status, **{k: v for k, v in o.info.items() if k in ("key", "what", "why", "replay")}) for o in self.outcomes],
            "deferred_to_thorough_tier": self.deferred,
            "known_findings_reproduced": [k for (_, k) in self.known_hits],
            "engines": {"kani": kani_run.kani_version() if self.crates else "not used", "smt": "z3-new 5.1.0 primary; z3 4.8.12 / cvc5 1.0 cross-check in thorough tier"},
            "exhaustive": False,
        }
        ev = {"property_id": self.prop, "tier": self.tier, "seed": self.seed, "level": level, "coverage": cov,
              "assumptions": self.assumptions, "wall_s": wall, "violations": len(self.violations)}
        os.makedirs(os.path.join(VERIF, "evidence"), exist_ok=True)
        if self.replay is None and not DEV_ONLY:      # a replay run does not describe a check run: leave the evidence file alone
            with open(os.path.join(VERIF, "evidence", self.prop + ".json"), "w") as f:
                json.dump(ev, f, indent=1, ensure_ascii=False)
        n_h = sum(1 for o in self.outcomes if o.status == "holds")
        log("SUMMARY property=%s tier=%s lemmas: %d hold, %d known, %d violated, %d inconclusive; %d queries, solver %.1fs, wall %.1fs" % (
            self.prop, self.tier, n_h, len(self.known_hits), len(self.violations), len(self.inconclusive), self.queries, self.solver_time, wall))
        if self.violations:
            return 1
        if self.inconclusive:
            for l, w in self.inconclusive:
                log("INCONCLUSIVE %s: %s" % (l, w[:400]))
            return 2
        return 0


def main(prop, build_fn):
    import argparse
    ap = argparse.ArgumentParser()
    ap.add_argument("--tier", default=os.environ.get("VERIF_TIER", "quick"))
    ap.add_argument("--replay")
    a = ap.parse_args(sys.argv[2:])
    tier = a.tier if a.tier in ("quick", "thorough") else "quick"
    seed = int(os.environ.get("VERIF_SEED", "0") or 0)
    run = Run(prop, tier, seed)
    try:
        if a.replay:
            run.replay = json.load(open(a.replay))
            log("REPLAY file=%s lemma=%s" % (a.replay, run.replay.get("lemma")))
        with run.parallel():      # the Kani harnesses of all crates of this check are discharged together (wall time only)
            build_fn(run)
        if a.replay and not run.replayed:
            log("REPLAY: lemma %s is discharged by a custom loop; re-run `bin/check %s` to re-derive it from the current tree" % (run.replay.get("lemma"), prop))
    except slicer.SliceError as e:
        log("ENCODING-FAILED property=%s: %s" % (prop, e))
        run.inconclusive_("encoding", "slice not found: %s" % e)
    except Exception as e:  # noqa
        traceback.print_exc()
        run.inconclusive_("framework", "exception: %r" % e)
    return run.finish()
