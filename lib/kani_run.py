"""Engine K: generate a harness crate from source slices, run cargo-kani per harness (in parallel),
parse verdicts / cover witnesses / concrete counterexample values, and replay counterexamples natively
(same crate, real std and real dependencies, recorded values fed through the `sym` shim)."""
import concurrent.futures
import json
import os
import re
import shutil
import subprocess
import time

VERIF = os.path.dirname(os.path.dirname(os.path.abspath(__file__)))
BUILD = os.path.join(VERIF, ".build")
REPO = os.environ.get("VERIF_REPO", "/repo")
SCRATCH = "/var/tmp"

ENV = dict(os.environ, CARGO_NET_OFFLINE="true", CARGO_TERM_COLOR="never")

# ----------------------------------------------------------------------------------------------
# `sym`: the only way harnesses obtain symbolic values.  Under Kani it is kani::any(); natively it
# reads the values of a recorded counterexample (concrete playback), so the *same* harness text is
# what gets replayed against the real std / real crates.
SYM_RS = r'''
#[allow(dead_code, unused_macros, unused_imports)]
pub mod sym {
    #[cfg(kani)] pub fn u8() -> u8 { kani::any() }
    #[cfg(kani)] pub fn u16() -> u16 { kani::any() }
    #[cfg(kani)] pub fn u32() -> u32 { kani::any() }
    #[cfg(kani)] pub fn u64() -> u64 { kani::any() }
    #[cfg(kani)] pub fn usize() -> usize { kani::any() }
    #[cfg(kani)] pub fn bool() -> bool { kani::any() }
    #[cfg(kani)] pub fn assume(b: bool) { kani::assume(b) }

    #[cfg(not(kani))]
    mod rec {
        use std::cell::RefCell;
        thread_local! { pub static VALS: RefCell<(Vec<Vec<u8>>, usize)> = RefCell::new((vec![], 0)); }
        pub fn next(n: usize) -> Vec<u8> {
            VALS.with(|v| {
                let mut v = v.borrow_mut();
                let i = v.1;
                v.1 += 1;
                if i >= v.0.len() { println!("REPLAY-OUT-OF-VALUES"); std::process::exit(4); }
                let mut b = v.0[i].clone();
                if b.len() != n { println!("REPLAY-WIDTH-MISMATCH want {} got {}", n, b.len()); b.resize(n, 0); }
                b
            })
        }
    }
    #[cfg(not(kani))] pub fn load(vals: Vec<Vec<u8>>) { rec::VALS.with(|v| *v.borrow_mut() = (vals, 0)); }
    #[cfg(not(kani))] pub fn u8() -> u8 { rec::next(1)[0] }
    #[cfg(not(kani))] pub fn u16() -> u16 { let b = rec::next(2); u16::from_le_bytes([b[0], b[1]]) }
    #[cfg(not(kani))] pub fn u32() -> u32 { let b = rec::next(4); u32::from_le_bytes([b[0], b[1], b[2], b[3]]) }
    #[cfg(not(kani))] pub fn u64() -> u64 { let b = rec::next(8); let mut a = [0u8; 8]; a.copy_from_slice(&b); u64::from_le_bytes(a) }
    #[cfg(not(kani))] pub fn usize() -> usize { u64() as usize }
    #[cfg(not(kani))] pub fn bool() -> bool { rec::next(1)[0] != 0 }
    #[cfg(not(kani))] pub fn assume(b: bool) { if !b { println!("REPLAY-ASSUME-FAILED"); std::process::exit(3); } }

    /// symbolic char: any valid Unicode scalar value
    pub fn ch() -> char {
        let v = u32();
        assume(v < 0xD800 || (v > 0xDFFF && v <= 0x10FFFF));
        unsafe { char::from_u32_unchecked(v) }
    }
    /// symbolic index < n
    pub fn below(n: usize) -> usize { let v = u8() as usize; assume(v < n); v }
}
#[cfg(kani)]
#[allow(unused_macros)]
macro_rules! cover { ($c:expr, $m:expr) => { kani::cover!($c, $m) }; }
#[cfg(not(kani))]
#[allow(unused_macros)]
macro_rules! cover { ($c:expr, $m:expr) => { if $c { println!("REPLAY-COVER {}", $m); } }; }
'''

REPLAY_MAIN = r'''
fn main() {
    let args: Vec<String> = std::env::args().collect();
    let harness = &args[1];
    let vals: Vec<Vec<u8>> = std::fs::read_to_string(&args[2]).unwrap().lines()
        .map(|l| l.split(',').filter(|x| !x.trim().is_empty()).map(|x| x.trim().parse::<u8>().unwrap()).collect()).collect();
    CRATE::sym::load(vals);
    std::panic::set_hook(Box::new(|info| { println!("REPLAY-PANIC {}", info.to_string().replace('\n', " ")); }));
    let r = std::panic::catch_unwind(|| CRATE::replay_dispatch(harness));
    match r { Ok(true) => println!("REPLAY-PASSED"), Ok(false) => println!("REPLAY-NO-SUCH-HARNESS"), Err(_) => println!("REPLAY-REPRODUCED") }
}
'''



def _lockfile():
    """Cargo.lock of the repository under check; it is an ignored file, so a `git worktree` snapshot of /repo has none: fall back to /repo's."""
    p = os.path.join(os.environ.get("VERIF_REPO", "/repo"), "Cargo.lock")
    return p if os.path.exists(p) else "/repo/Cargo.lock"


def kani_version():
    try:
        out = subprocess.run(["cargo", "kani", "--version"], capture_output=True, text=True, env=ENV, timeout=60)
        return out.stdout.strip() or out.stderr.strip()
    except Exception as e:  # noqa
        return "unavailable: %s" % e


class Crate:
    """A generated harness crate.  `body` is Rust source (slices + prelude + harnesses).  Harness fns are
    declared with the HARNESS(name, unwind, stubs) marker expanded here so that they exist in both cfgs."""

    def __init__(self, name, body, deps=None, native_deps=None, nightly_features=("pattern",)):
        self.name = name
        self._args = dict(body=body, deps=deps, native_deps=native_deps, nightly_features=nightly_features)
        self._orig = getattr(self, "_orig", None) or (name, body)
        self.dir = os.path.join(SCRATCH, "verif-%s-%d" % (name, os.getpid()))
        self.deps = deps or {}
        self.native_deps = dict(self.deps, **(native_deps or {}))
        self.harnesses = []
        self.body = self._expand(body)
        self.nightly_features = nightly_features
        self._write()

    _h_re = re.compile(r"HARNESS\(\s*(\w+)\s*,\s*(\d+)\s*(?:,\s*\[(.*?)\])?\s*\)\s*\{", re.S)

    def _expand(self, body):
        def rep(m):
            name, unwind, stubs = m.group(1), m.group(2), m.group(3) or ""
            self.harnesses.append(name)
            attrs = ["#[cfg_attr(kani, kani::proof)]", "#[cfg_attr(kani, kani::unwind(%s))]" % unwind]
            for s in [x.strip() for x in stubs.split(",") if x.strip()]:
                a, b = [y.strip() for y in s.split("=>")]
                attrs.append("#[cfg_attr(kani, kani::stub(%s, %s))]" % (a, b))
            return "\n".join(attrs) + "\npub fn %s() {" % name
        return self._h_re.sub(rep, body)

    def _write(self):
        shutil.rmtree(self.dir, ignore_errors=True)
        os.makedirs(os.path.join(self.dir, "src"))
        deps = "".join("%s = %s\n" % (k, v) for k, v in self.deps.items())
        with open(os.path.join(self.dir, "Cargo.toml"), "w") as f:
            f.write('[package]\nname = "%s"\nversion = "0.1.0"\nedition = "2018"\n\n[workspace]\n\n'
                    '[lib]\npath = "src/lib.rs"\n\n'
                    '[dependencies]\n%s\n[profile.dev]\ndebug = false\n\n[lints.rust]\nunexpected_cfgs = { level = "allow" }\n'
                    % (self.name, deps))
        # second manifest for the native replay build (Kani would otherwise try to build the bin target)
        os.makedirs(os.path.join(self.dir, "native"))
        deps = "".join("%s = %s\n" % (k, v) for k, v in self.native_deps.items())
        with open(os.path.join(self.dir, "native", "Cargo.toml"), "w") as f:
            f.write('[package]\nname = "%s"\nversion = "0.1.0"\nedition = "2018"\n\n[workspace]\n\n'
                    '[lib]\npath = "../src/lib.rs"\n\n[[bin]]\nname = "replay"\npath = "../src/replay_main.rs"\n\n'
                    '[dependencies]\n%s\n[profile.dev]\ndebug = false\noverflow-checks = true\n\n[profile.release]\noverflow-checks = false\n\n'
                    '[lints.rust]\nunexpected_cfgs = { level = "allow" }\n'
                    % (self.name, deps))
        shutil.copy(_lockfile(), os.path.join(self.dir, "native", "Cargo.lock"))
        shutil.copy(_lockfile(), os.path.join(self.dir, "Cargo.lock"))
        feats = "".join("#![cfg_attr(kani, feature(%s))]\n" % f for f in self.nightly_features)
        dispatch = "pub fn replay_dispatch(name: &str) -> bool {\n    match name {\n" + "".join(
            '        "%s" => { %s(); true }\n' % (h, h) for h in self.harnesses) + "        _ => false,\n    }\n}\n"
        with open(os.path.join(self.dir, "src", "lib.rs"), "w") as f:
            f.write(feats + "#![allow(warnings)]\n" + SYM_RS + "\n" + self.body + "\n" + dispatch)
        with open(os.path.join(self.dir, "src", "replay_main.rs"), "w") as f:
            f.write(REPLAY_MAIN.replace("CRATE", self.name))

    def variant(self, suffix, excluded):
        """Same crate with `const EXCL_<ROLE>: bool = false;` flipped to true for the given roles: used to
        discharge a lemma a second time with exactly a listed known finding's role assumed away."""
        base_name, body = self._orig          # always derived from the original crate (all switches false)
        for r in excluded:
            old = "const EXCL_%s: bool = false;" % r
            if old not in body:
                raise ValueError("crate %s has no exclusion switch %s" % (self.name, r))
            body = body.replace(old, "const EXCL_%s: bool = true;" % r)
        a = dict(self._args, body=body)
        c = Crate.__new__(Crate)
        c._orig = self._orig
        c.__init__(base_name + suffix, **a)
        return c

    def cleanup(self):
        shutil.rmtree(self.dir, ignore_errors=True)

    # ------------------------------------------------------------------------------------------
    def run(self, harness, timeout=120, mem_gb=12, playback=True, extra_args=()):
        """Run one harness.  Returns dict(status=success|failed|error|timeout|compile_error, ...)."""
        tdir = os.path.join(BUILD, "kani", "%s-%s" % (self.name, harness))
        os.makedirs(tdir, exist_ok=True)
        cmd = ["cargo", "kani", "--harness", harness, "--exact", "--target-dir", tdir, "-Z", "stubbing"]
        if playback:
            cmd += ["-Z", "concrete-playback", "--concrete-playback=print"]
        cmd += list(extra_args)
        shell = "ulimit -v %d; exec timeout -k 5 %d %s" % (mem_gb * 1024 * 1024, timeout, " ".join(
            "'%s'" % c for c in cmd))
        t0 = time.time()
        p = subprocess.run(["bash", "-c", shell], cwd=self.dir, capture_output=True, text=True, env=ENV)
        wall = time.time() - t0
        out = p.stdout + "\n" + p.stderr
        try:
            os.makedirs(os.path.join(BUILD, "logs"), exist_ok=True)
            with open(os.path.join(BUILD, "logs", "%s-%s.log" % (self.name, harness)), "w") as lf:
                lf.write(out)
        except OSError:
            pass
        res = parse_kani_output(out)
        res.update(harness=harness, crate=self.name, wall_s=round(wall, 2), exit=p.returncode)
        if p.returncode in (124, 137):
            res["status"] = "timeout"
        res["log_tail"] = out[-3000:] if res["status"] not in ("success",) else ""
        return res

    def native_build(self, release=False):
        tdir = os.path.join(BUILD, "native", self.name)
        os.makedirs(tdir, exist_ok=True)
        cmd = ["cargo", "build", "--offline", "--bin", "replay", "--target-dir", tdir]
        if release:
            cmd.append("--release")
        p = subprocess.run(cmd, cwd=os.path.join(self.dir, "native"), capture_output=True, text=True, env=ENV)
        if p.returncode != 0:
            return None, p.stderr[-4000:]
        return os.path.join(tdir, "release" if release else "debug", "replay"), ""

    def native_replay(self, harness, values, release=False):
        """values: list of byte lists.  Returns (verdict, output) with verdict in
        reproduced | passed | assume_failed | build_failed | other."""
        exe, err = self.native_build(release)
        if exe is None:
            return "build_failed", err
        vf = os.path.join(self.dir, "vals-%s.txt" % harness)
        with open(vf, "w") as f:
            for v in values:
                f.write(",".join(str(b) for b in v) + "\n")
        try:
            p = subprocess.run([exe, harness, vf], capture_output=True, text=True, timeout=120)
        except subprocess.TimeoutExpired:
            return "other", "native replay timed out"
        out = p.stdout + p.stderr
        if "REPLAY-REPRODUCED" in out:
            return "reproduced", out
        if "REPLAY-ASSUME-FAILED" in out:
            return "assume_failed", out
        if "REPLAY-PASSED" in out:
            return "passed", out
        return "other", out


_check_re = re.compile(r"^Check \d+: (\S+)\n\s+- Status: (\w+)\n\s+- Description: \"(.*?)\"\n\s+- Location: (.*?)$", re.M)


def parse_kani_output(out):
    res = {"status": "error", "failed_checks": [], "covers": {}, "values": None, "n_checks": 0,
           "verification_time_s": None, "stubs": re.findall(r"- Stub: (.*)", out)}
    if "error: could not compile" in out or "error[E" in out:
        res["status"] = "compile_error"
        return res
    for m in _check_re.finditer(out):
        cid, status, desc, loc = m.groups()
        res["n_checks"] += 1
        if ".cover." in cid or status in ("SATISFIED", "UNSATISFIED"):
            res["covers"][desc] = status
        elif status == "FAILURE":
            res["failed_checks"].append({"id": cid, "desc": desc, "loc": loc.strip()})
    m = re.search(r"Verification Time: ([0-9.]+)s", out)
    if m:
        res["verification_time_s"] = float(m.group(1))
    if "VERIFICATION:- SUCCESSFUL" in out:
        res["status"] = "success"
    elif "VERIFICATION:- FAILED" in out:
        # OOM / internal error also print FAILED: distinguish by presence of failed checks
        if res["failed_checks"]:
            res["status"] = "failed"
        elif "Status: ERROR" in out or "CBMC failed" in out or "out of memory" in out.lower():
            res["status"] = "error"
        else:
            # only cover failures / unwinding assertion etc.
            res["status"] = "failed" if re.search(r"Failed Checks:", out) else "error"
            for fm in re.finditer(r"Failed Checks: (.*)", out):
                res["failed_checks"].append({"id": "?", "desc": fm.group(1), "loc": ""})
    res["n_checks"] = len(re.findall(r"^Check \d+: ", out, re.M))
    # concrete playback tests: one per failed check (and per satisfied cover); keep them apart
    res["playbacks"] = []
    for pm in re.finditer(r"/// Check for `(\w+)`: \"(.*?)\"\s*\n(.*?)let concrete_vals: Vec<Vec<u8>> = vec!\[(.*?)\n\s*\];", out, re.S):
        kind, desc, _, body = pm.groups()
        vals = [[int(x) for x in vm.group(1).split(",") if x.strip()] for vm in re.finditer(r"vec!\[([0-9, ]*)\]", body)]
        res["playbacks"].append({"kind": kind, "desc": desc, "values": vals})
    # candidates for native replay: failure traces first, cover traces last (Kani de-duplicates equal traces,
    # so a failure trace may be printed under a cover's heading)
    res["playbacks"].sort(key=lambda p: p["kind"] == "cover")
    if res["playbacks"]:
        res["values"] = res["playbacks"][0]["values"]
    return res


def run_all(jobs, parallel=None):
    """jobs: list of (crate, harness, kwargs).  Runs in a thread pool; returns results in order."""
    parallel = parallel or int(os.environ.get("VERIF_JOBS", "8"))
    with concurrent.futures.ThreadPoolExecutor(max_workers=parallel) as ex:
        futs = [ex.submit(c.run, h, **kw) for (c, h, kw) in jobs]
        return [f.result() for f in futs]


class NativeCrate:
    """A plain native crate assembled from real source slices + shims, built against the real dependencies and run
    as a subprocess.  Used to replay Engine-Z witnesses on the real code (never the deciding step)."""

    def __init__(self, name, main_rs, deps=None):
        self.name = name
        self.dir = os.path.join(SCRATCH, "verif-%s-%d" % (name, os.getpid()))
        shutil.rmtree(self.dir, ignore_errors=True)
        os.makedirs(os.path.join(self.dir, "src"))
        with open(os.path.join(self.dir, "Cargo.toml"), "w") as f:
            f.write('[package]\nname = "%s"\nversion = "0.1.0"\nedition = "2018"\n\n[workspace]\n\n[dependencies]\n%s\n'
                    '[profile.dev]\ndebug = false\n' % (name, "".join("%s = %s\n" % kv for kv in (deps or {}).items())))
        shutil.copy(_lockfile(), os.path.join(self.dir, "Cargo.lock"))
        with open(os.path.join(self.dir, "src", "main.rs"), "w") as f:
            f.write("#![allow(warnings)]\n" + main_rs)
        self.exe = None

    def build(self):
        tdir = os.path.join(BUILD, "native", self.name)
        os.makedirs(tdir, exist_ok=True)
        p = subprocess.run(["cargo", "build", "--offline", "--target-dir", tdir], cwd=self.dir, capture_output=True, text=True, env=ENV)
        if p.returncode != 0:
            raise RuntimeError("native crate %s failed to build:\n%s" % (self.name, p.stderr[-4000:]))
        self.exe = os.path.join(tdir, "debug", self.name)
        return self.exe

    def run(self, stdin="", args=(), timeout=120):
        if self.exe is None:
            self.build()
        p = subprocess.run([self.exe] + list(args), input=stdin, capture_output=True, text=True, timeout=timeout)
        return p.stdout, p.stderr, p.returncode

    def cleanup(self):
        shutil.rmtree(self.dir, ignore_errors=True)
