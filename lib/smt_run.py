"""Engine Z driver: discharge SMT-LIB2 queries on z3-new (5.1.0, primary), z3 4.8.12 and cvc5 1.0
(cross-checkers).  `unsat` = lemma holds for every value of the quantified domain; `sat` = a model,
returned as a dict; anything else (unknown, timeout, an `(error` line) is inconclusive."""
import re
import subprocess
import time

SOLVERS = {
    "z3-new": ["z3-new", "-in", "-smt2"],
    "z3": ["/usr/bin/z3", "-in", "-smt2"],
    "cvc5": ["cvc5", "--lang", "smt2", "--produce-models", "--strings-exp"],
}


def smt_str(s):
    """SMT-LIB 2.6 string literal for a python string."""
    out = ['"']
    for ch in s:
        o = ord(ch)
        if ch == '"':
            out.append('""')
        elif 0x20 <= o < 0x7F and ch != "\\":
            out.append(ch)
        else:
            out.append("\\u{%x}" % o)
    out.append('"')
    return "".join(out)


def smt_char_range(lo, hi):
    return "(re.range %s %s)" % (smt_str(chr(lo)), smt_str(chr(hi))) if lo != hi else "(str.to_re %s)" % smt_str(chr(lo))


def parse_smt_string(tok):
    body = tok[1:-1].replace('""', '"')

    def rep(m):
        return chr(int(m.group(1) or m.group(2), 16))
    return re.sub(r"\\u\{([0-9a-fA-F]+)\}|\\u([0-9a-fA-F]{4})", rep, body)


def _parse_values(text):
    """Parse the output of (get-value (a b c)) -> dict name -> python value (int/str/bool)."""
    vals = {}
    # tokens: ( ) "string" atoms
    toks = re.findall(r'"(?:[^"]|"")*"|\(|\)|[^\s()]+', text)
    i = 0

    def parse(i):
        if toks[i] == "(":
            lst = []
            i += 1
            while toks[i] != ")":
                v, i = parse(i)
                lst.append(v)
            return lst, i + 1
        return toks[i], i + 1
    while i < len(toks):
        try:
            v, i = parse(i)
        except IndexError:
            break
        if isinstance(v, list):
            for pair in v:
                if isinstance(pair, list) and len(pair) == 2 and isinstance(pair[0], str):
                    vals[pair[0]] = _val(pair[1])
    return vals


def _val(v):
    if isinstance(v, list):
        if len(v) == 2 and v[0] == "-":
            return -_val(v[1])
        if len(v) == 3 and v[0] == "_" and v[1].startswith("bv"):
            return int(v[1][2:])
        if len(v) == 3 and v[0] == "_" and v[1] == "char":
            return chr(int(v[2][2:], 16))
        if len(v) == 2 and v[0] == "_":
            return v[1]
        return v
    if v.startswith('"'):
        return parse_smt_string(v)
    if v == "true":
        return True
    if v == "false":
        return False
    if v.startswith("#x"):
        return int(v[2:], 16)
    if v.startswith("#b"):
        return int(v[2:], 2)
    try:
        return int(v)
    except ValueError:
        return v


def solve(query, get=(), solver="z3-new", timeout=60, logic="ALL"):
    """query: SMT-LIB text without set-logic/check-sat.  Returns dict(status, model, time_s, raw)."""
    text = "(set-option :produce-models true)\n(set-logic %s)\n%s\n(check-sat)\n" % (logic, query)
    if get:
        text += "(get-value (%s))\n" % " ".join(get)
    cmd = list(SOLVERS[solver])
    if solver.startswith("z3"):
        cmd.append("-T:%d" % timeout)
    else:
        cmd.append("--tlimit=%d" % (timeout * 1000))
    t0 = time.time()
    try:
        p = subprocess.run(cmd, input=text, capture_output=True, text=True, timeout=timeout + 10)
        raw = p.stdout + p.stderr
    except subprocess.TimeoutExpired:
        return {"status": "timeout", "model": {}, "time_s": round(time.time() - t0, 3), "raw": "", "solver": solver}
    dt = round(time.time() - t0, 3)
    lines = [l.strip() for l in raw.splitlines() if l.strip()]
    status = "unknown"
    for l in lines:
        if l in ("sat", "unsat", "unknown", "timeout"):
            status = l
            break
    model = {}
    if status == "sat" and get:
        idx = raw.find("sat")
        model = _parse_values(raw[idx + 3:])
    if "(error" in raw:
        # an error before check-sat makes the verdict untrustworthy; an error from get-value after unsat is benign
        err_pos = raw.find("(error")
        st_pos = min([raw.find(x) for x in ("unsat", "sat") if raw.find(x) >= 0] or [10 ** 9])
        if err_pos < st_pos or status == "sat":
            status = "error"
    return {"status": status, "model": model, "time_s": dt, "raw": raw[-2000:], "solver": solver}


class Session:
    """One long-lived solver process with push/pop for batches of small queries."""

    def __init__(self, preamble, solver="z3-new", logic="ALL"):
        self.solver = solver
        cmd = list(SOLVERS[solver])
        if solver == "cvc5":
            cmd.append("--incremental")
        self.p = subprocess.Popen(cmd, stdin=subprocess.PIPE, stdout=subprocess.PIPE, stderr=subprocess.STDOUT, text=True)
        self._send("(set-option :produce-models true)\n(set-logic %s)\n%s\n" % (logic, preamble))
        self.n = 0
        self.time_s = 0.0

    def _send(self, s):
        self.p.stdin.write(s)
        self.p.stdin.flush()

    def check(self, assertion, get=()):
        t0 = time.time()
        self._send("(push 1)\n%s\n(check-sat)\n" % assertion)
        status = self.p.stdout.readline().strip()
        while status == "" or status.startswith(";"):
            status = self.p.stdout.readline().strip()
        model = {}
        if status == "sat" and get:
            self._send("(get-value (%s))\n(echo \"<<END>>\")\n" % " ".join(get))
            buf = []
            while True:
                l = self.p.stdout.readline()
                if not l or "<<END>>" in l:
                    break
                buf.append(l)
            model = _parse_values("".join(buf))
        self._send("(pop 1)\n")
        self.n += 1
        dt = time.time() - t0
        self.time_s += dt
        if status.startswith("(error"):
            status = "error:" + status
        return {"status": status, "model": model, "time_s": round(dt, 3), "solver": self.solver}

    def close(self):
        try:
            self._send("(exit)\n")
            self.p.wait(timeout=5)
        except Exception:  # noqa
            self.p.kill()
