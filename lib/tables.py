"""Extractors for data tables in the source: phf_map!/phf_set! bodies, simple match-arm tables."""
import slicer


def phf_entries(span_or_text, source=None):
    """Parse `phf_map! { k => v, ... }` (or a bare `{...}` body) -> list of (key_value, value_tokens:list[Tok]).
    Keys are string/char literals; the value is the token list up to the top-level comma."""
    text = span_or_text if isinstance(span_or_text, str) else span_or_text.text
    toks = [t for t in slicer.lex(text) if t.kind != "comment"]
    # find the first '{' after phf_map ! (or the first '{')
    i = 0
    while i < len(toks) and toks[i].text != "{":
        i += 1
    i += 1
    out = []
    depth = 0
    while i < len(toks):
        t = toks[i]
        if t.text == "}" and depth == 0:
            break
        if t.kind == "num":
            import re as _re
            key = int(_re.sub(r"(u8|u16|u32|u64|usize|i32|i64)$", "", t.text).replace("_", ""), 0)
        elif t.kind in ("str", "char"):
            key = slicer.unquote(t.text)
        else:
            raise slicer.SliceError("phf key is not a literal: %r" % t.text)
        if not (toks[i + 1].text == "=" and toks[i + 2].text == ">"):
            raise slicer.SliceError("expected => after key %r" % key)
        i += 3
        val = []
        while i < len(toks):
            t = toks[i]
            if t.kind == "punct" and t.text in "([{":
                depth += 1
            elif t.kind == "punct" and t.text in ")]}":
                if depth == 0:
                    break
                depth -= 1
            elif t.kind == "punct" and t.text == "," and depth == 0:
                i += 1
                break
            val.append(t)
            i += 1
        out.append((key, val))
    return out


def phf_set_keys(span_or_text):
    text = span_or_text if isinstance(span_or_text, str) else span_or_text.text
    toks = [t for t in slicer.lex(text) if t.kind != "comment"]
    i = 0
    while i < len(toks) and not (toks[i].text == "phf_set"):
        i += 1
    while i < len(toks) and toks[i].text != "{":
        i += 1
    keys = []
    i += 1
    while i < len(toks) and toks[i].text != "}":
        if toks[i].kind in ("str", "char"):
            keys.append(slicer.unquote(toks[i].text))
        i += 1
    return keys


def string_map(span_or_text):
    """phf_map with string-literal values -> dict."""
    d = {}
    for k, v in phf_entries(span_or_text):
        if len(v) != 1 or v[0].kind not in ("str", "char"):
            raise slicer.SliceError("value of %r is not a single literal" % k)
        if k in d:
            raise slicer.SliceError("duplicate key %r" % k)
        d[k] = slicer.unquote(v[0].text)
    return d


def lazy_regex(source, name, within=None):
    """Pattern text of `static ref NAME: Regex = Regex::new(<literal>)` inside `within` (a Span) or the file."""
    sp = source.find("static ref " + name, within=within)
    toks = [t for t in slicer.lex(sp.text) if t.kind != "comment"]
    for i, t in enumerate(toks):
        if t.text == "new" and toks[i + 1].text == "(":
            j = i + 2
            if toks[j].kind == "str" and toks[j + 1].text == ")":
                return slicer.unquote(toks[j].text), sp
            # multi-line: Regex::new(\n r"...")
            raise slicer.SliceError("Regex::new argument of %s is not a single literal" % name)
    raise slicer.SliceError("no Regex::new in %s" % name)


def used_lazy_regexes(source, text, run=None):
    """(NAME, pattern) for every ALL_CAPS identifier in `text` that is a `static ref NAME: Regex` of `source`'s lazy_static blocks:
    lets a harness follow a slice that starts (or stops) using a regex."""
    import re
    out = []
    for nm in sorted(set(re.findall(r"\b[A-Z][A-Z0-9_]{2,}\b", text))):
        try:
            pat, sp = lazy_regex(source, nm)
        except slicer.SliceError:
            continue
        if run is not None:
            run.uses(sp)
        out.append((nm, pat))
    return out
