"""Rust `regex` syntax subset -> AST -> SMT-LIB RegLan (Engine Z), plus a reference NFA-free Python matcher
used for translator validation.  Perl/POSIX classes (\\d \\s \\w [[:alpha:]] .) are not guessed: their exact
code-point sets are obtained from the real `regex` crate (native/rxcheck, command C).  A pattern outside
the supported subset raises RxUnsupported -> the check exits 2 (ENCODING-FAILED)."""
import os
import subprocess

from smt_run import smt_str

VERIF = os.path.dirname(os.path.dirname(os.path.abspath(__file__)))
RXCHECK = os.path.join(VERIF, ".build", "rxcheck-target", "debug", "rxcheck")
MAXCP = 0x10FFFF


class RxUnsupported(Exception):
    pass



def _lockfile():
    """Cargo.lock of the repository under check; it is an ignored file, so a `git worktree` snapshot of /repo has none: fall back to /repo's."""
    p = os.path.join(os.environ.get("VERIF_REPO", "/repo"), "Cargo.lock")
    return p if os.path.exists(p) else "/repo/Cargo.lock"


def build_rxcheck():
    d = os.path.join(VERIF, "native", "rxcheck")
    import shutil
    shutil.copy(_lockfile(), os.path.join(d, "Cargo.lock"))
    env = dict(os.environ, CARGO_NET_OFFLINE="true", CARGO_TARGET_DIR=os.path.join(VERIF, ".build", "rxcheck-target"))
    p = subprocess.run(["cargo", "build", "--offline"], cwd=d, capture_output=True, text=True, env=env)
    if p.returncode != 0:
        raise RuntimeError("rxcheck build failed: " + p.stderr[-2000:])


def _esc(s):
    out = []
    for ch in s:
        o = ord(ch)
        if ch == "\\":
            out.append("\\\\")
        elif ch == "\n":
            out.append("\\n")
        elif ch == "\t":
            out.append("\\t")
        elif o < 0x20 or o > 0x7E:
            out.append("\\u{%x}" % o)
        else:
            out.append(ch)
    return "".join(out)


def _unesc(s):
    import re
    return re.sub(r"\\u\{([0-9a-f]+)\}|\\n|\\t|\\\\", lambda m: chr(int(m.group(1), 16)) if m.group(1) else {"\\n": "\n", "\\t": "\t", "\\\\": "\\"}[m.group(0)], s)


_built = False


def rxcheck(lines):
    """lines: list of (cmd, [fields]).  Returns list of result strings (after 'OK ') or raises."""
    global _built
    if not _built:
        build_rxcheck()      # incremental: a no-op when nothing changed
        _built = True
    inp = "\n".join("%s %s" % (c, "\t".join(_esc(f) for f in fs)) for c, fs in lines) + "\n"
    p = subprocess.run([RXCHECK], input=inp, capture_output=True, text=True, timeout=600)
    out = []
    for l in p.stdout.splitlines():
        if l.startswith("OK"):
            out.append(l[3:])
        else:
            out.append(None)
    if len(out) != len(lines):
        raise RuntimeError("rxcheck protocol error: %s" % p.stderr[-500:])
    return out


_class_cache = {}


def real_class(pat):
    """Exact set of chars matched by a single-char pattern, computed by the real regex crate."""
    if pat not in _class_cache:
        r = rxcheck([("C", [pat])])[0]
        if r is None:
            raise RxUnsupported("rxcheck cannot compile class %r" % pat)
        _class_cache[pat] = [tuple(int(x, 16) for x in rg.split("-")) for rg in r.split()]
    return _class_cache[pat]


# ---- ranges ------------------------------------------------------------------------------------
def norm(ranges):
    rs = sorted(ranges)
    out = []
    for lo, hi in rs:
        if out and lo <= out[-1][1] + 1:
            out[-1] = (out[-1][0], max(out[-1][1], hi))
        else:
            out.append((lo, hi))
    return out


def negate(ranges):
    out, prev = [], 0
    for lo, hi in norm(ranges):
        if lo > prev:
            out.append((prev, lo - 1))
        prev = hi + 1
    if prev <= MAXCP:
        out.append((prev, MAXCP))
    # surrogates are not chars
    res = []
    for lo, hi in out:
        if hi < 0xD800 or lo > 0xDFFF:
            res.append((lo, hi))
        else:
            if lo < 0xD800:
                res.append((lo, 0xD7FF))
            if hi > 0xDFFF:
                res.append((0xE000, hi))
    return res


def in_ranges(ranges, cp):
    return any(lo <= cp <= hi for lo, hi in ranges)


# ---- parser ------------------------------------------------------------------------------------
class P:
    def __init__(self, pat):
        self.s, self.i, self.ngroups, self.names = pat, 0, 0, {}

    def peek(self):
        return self.s[self.i] if self.i < len(self.s) else None

    def eat(self, c=None):
        ch = self.s[self.i]
        if c is not None and ch != c:
            raise RxUnsupported("expected %r at %d in %r" % (c, self.i, self.s))
        self.i += 1
        return ch

    def parse(self):
        node = self.alt()
        if self.i != len(self.s):
            raise RxUnsupported("trailing %r in %r" % (self.s[self.i:], self.s))
        return node

    def alt(self):
        branches = [self.cat()]
        while self.peek() == "|":
            self.eat()
            branches.append(self.cat())
        return branches[0] if len(branches) == 1 else ("alt", branches)

    def cat(self):
        items = []
        while self.peek() is not None and self.peek() not in "|)":
            items.append(self.rep())
        return ("cat", items)

    def rep(self):
        atom = self.atom()
        while self.peek() is not None and self.peek() in "*+?{":
            c = self.peek()
            if c == "{":
                j = self.s.find("}", self.i)
                body = self.s[self.i + 1:j]
                if j < 0 or not body.replace(",", "").isdigit():
                    raise RxUnsupported("bad repetition in %r" % self.s)
                self.i = j + 1
                if "," in body:
                    lo, hi = body.split(",")
                    lo, hi = int(lo), (int(hi) if hi else None)
                else:
                    lo = hi = int(body)
            else:
                self.eat()
                lo, hi = {"*": (0, None), "+": (1, None), "?": (0, 1)}[c]
            lazy = False
            if self.peek() == "?":
                self.eat()
                lazy = True
            atom = ("rep", atom, lo, hi, lazy)
        return atom

    def atom(self):
        c = self.eat()
        if c == "(":
            cap, name = True, None
            if self.peek() == "?":
                self.eat()
                if self.peek() == ":":
                    self.eat()
                    cap = False
                elif self.peek() == "P":
                    self.eat()
                    self.eat("<")
                    j = self.s.index(">", self.i)
                    name = self.s[self.i:j]
                    self.i = j + 1
                else:
                    raise RxUnsupported("group flag in %r" % self.s)
            idx = None
            if cap:
                self.ngroups += 1
                idx = self.ngroups
                if name:
                    self.names[name] = idx
            inner = self.alt()
            self.eat(")")
            return ("group", inner, idx, name)
        if c == "[":
            return self.cls()
        if c == ".":
            return ("class", negate([(10, 10)]))
        if c == "^":
            return ("bol",)
        if c == "$":
            return ("eol",)
        if c == "\\":
            return self.escape(False)
        return ("class", [(ord(c), ord(c))])

    def escape(self, in_class):
        e = self.eat()
        if e in "dsw":
            return ("class", real_class("\\" + e))
        if e in "DSW":
            return ("class", negate(real_class("\\" + e.lower())))
        if e == "u" or e == "U" or e == "x":
            if self.peek() == "{":
                j = self.s.index("}", self.i)
                cp = int(self.s[self.i + 1:j], 16)
                self.i = j + 1
            else:
                n = {"u": 4, "U": 8, "x": 2}[e]
                cp = int(self.s[self.i:self.i + n], 16)
                self.i += n
            return ("class", [(cp, cp)])
        if e == "n":
            return ("class", [(10, 10)])
        if e == "t":
            return ("class", [(9, 9)])
        if e == "r":
            return ("class", [(13, 13)])
        if e.isalnum():
            raise RxUnsupported("escape \\%s in %r" % (e, self.s))
        return ("class", [(ord(e), ord(e))])

    def cls(self):
        neg = False
        if self.peek() == "^":
            self.eat()
            neg = True
        ranges = []
        first = True
        while True:
            c = self.peek()
            if c is None:
                raise RxUnsupported("unterminated class in %r" % self.s)
            if c == "]" and not first:
                self.eat()
                break
            first = False
            if c == "[" and self.s.startswith("[:", self.i):
                j = self.s.index(":]", self.i)
                nm = self.s[self.i + 2:j]
                self.i = j + 2
                ranges += real_class("[[:%s:]]" % nm)
                continue
            if c == "[" or (c == "&" and self.s.startswith("&&", self.i)) or (c == "-" and self.s.startswith("--", self.i)) or (c == "~" and self.s.startswith("~~", self.i)):
                raise RxUnsupported("class set operation in %r" % self.s)
            self.eat()
            if c == "\\":
                node = self.escape(True)
                rs = node[1]
                if len(rs) != 1 or rs[0][0] != rs[0][1]:
                    ranges += rs
                    continue
                lo = rs[0][0]
            else:
                lo = ord(c)
            if self.peek() == "-" and self.i + 1 < len(self.s) and self.s[self.i + 1] != "]":
                self.eat()
                h = self.eat()
                if h == "\\":
                    rs = self.escape(True)[1]
                    if len(rs) != 1 or rs[0][0] != rs[0][1]:
                        raise RxUnsupported("class range end in %r" % self.s)
                    hi = rs[0][0]
                else:
                    hi = ord(h)
                if hi < lo:
                    raise RxUnsupported("reversed range in %r" % self.s)
                ranges.append((lo, hi))
            else:
                ranges.append((lo, lo))
        ranges = norm(ranges)
        return ("class", negate(ranges) if neg else ranges)


def parse(pat):
    p = P(pat)
    ast = p.parse()
    return ast, p.ngroups, p.names


# ---- SMT emission ------------------------------------------------------------------------------
CLASS_FILTER = None   # optional list of ranges every class is intersected with (sound when the query restricts the alphabet anyway)


def _intersect(r1, r2):
    out = []
    for a, b in r1:
        for c, d in r2:
            lo, hi = max(a, c), min(b, d)
            if lo <= hi:
                out.append((lo, hi))
    return norm(out)


def cls_smt(ranges):
    if CLASS_FILTER is not None:
        ranges = _intersect(ranges, CLASS_FILTER)
    if not ranges:
        return "re.none"
    parts = []
    for lo, hi in ranges:
        if lo == hi:
            parts.append("(str.to_re %s)" % smt_str(chr(lo)))
        else:
            parts.append("(re.range %s %s)" % (smt_str(chr(lo)), smt_str(chr(hi))))
    return parts[0] if len(parts) == 1 else "(re.union %s)" % " ".join(parts)


def to_smt(node):
    """RegLan term of the *language* of the node (anchors must have been stripped by split_anchors)."""
    k = node[0]
    if k == "class":
        return cls_smt(node[1])
    if k == "cat":
        items = [to_smt(n) for n in node[1]]
        if not items:
            return '(str.to_re "")'
        return items[0] if len(items) == 1 else "(re.++ %s)" % " ".join(items)
    if k == "alt":
        return "(re.union %s)" % " ".join(to_smt(n) for n in node[1])
    if k == "group":
        return to_smt(node[1])
    if k == "rep":
        inner, lo, hi = to_smt(node[1]), node[2], node[3]
        if (lo, hi) == (0, None):
            return "(re.* %s)" % inner
        if (lo, hi) == (1, None):
            return "(re.+ %s)" % inner
        if (lo, hi) == (0, 1):
            return "(re.opt %s)" % inner
        if hi is None:
            return "(re.++ ((_ re.loop %d %d) %s) (re.* %s))" % (lo, lo, inner, inner)
        return "((_ re.loop %d %d) %s)" % (lo, hi, inner)
    if k in ("bol", "eol"):
        raise RxUnsupported("anchor in the middle of a pattern")
    raise RxUnsupported("node %r" % (k,))


def erase_groups(node, kept_idx, kept_names, inrep=False):
    """The pattern with every capture group that a replacement template re-inserts (by index or name) replaced by the empty
    string: what is left is the part of a match that the replacement does NOT put back.  A group under a repetition is not
    erased (only its last iteration is re-inserted)."""
    k = node[0]
    if k == "group":
        if not inrep and ((node[2] is not None and node[2] in kept_idx) or (node[3] is not None and node[3] in kept_names)):
            return ("cat", [])
        return ("group", erase_groups(node[1], kept_idx, kept_names, inrep), node[2], node[3])
    if k in ("cat", "alt"):
        return (k, [erase_groups(n, kept_idx, kept_names, inrep) for n in node[1]])
    if k == "rep":
        return ("rep", erase_groups(node[1], kept_idx, kept_names, inrep or node[3] != 1), node[2], node[3])
    return node


def split_anchors(ast):
    """Returns (anchored_start, anchored_end, ast_without_outer_anchors).  Only a leading ^ / trailing $ of a top-level
    concatenation (or of every top-level alternative) is supported."""
    if ast[0] == "alt":
        parts = [split_anchors(b) for b in ast[1]]
        if all(p[0] and p[1] for p in parts):
            return True, True, ("alt", [p[2] for p in parts])
        if not any(p[0] or p[1] for p in parts):
            return False, False, ast
        raise RxUnsupported("mixed anchoring of alternatives")
    if ast[0] != "cat":
        return False, False, ast
    items = list(ast[1])
    s = e = False
    # allow  ^\s*^...  (MathCAT's roman numeral patterns): a second ^ after nullable stuff is only consistent if that stuff is empty
    if items and items[0] == ("bol",):
        s = True
        items = items[1:]
    if items and items[-1] == ("eol",):
        e = True
        items = items[:-1]
    return s, e, ("cat", items)


def has_inner_anchor(ast):
    if ast[0] in ("bol", "eol"):
        return True
    if ast[0] in ("cat", "alt"):
        return any(has_inner_anchor(n) for n in ast[1])
    if ast[0] in ("group", "rep"):
        return has_inner_anchor(ast[1])
    return False


def full_match_lang(pat):
    """RegLan for { s | regex `pat` matches s *as a whole* }: for ^...$ patterns this is is_match(s)."""
    ast, _, _ = parse(pat)
    s, e, core = split_anchors(ast)
    if has_inner_anchor(core):
        raise RxUnsupported("inner anchor in %r" % pat)
    if not (s and e):
        raise RxUnsupported("pattern %r is not fully anchored" % pat)
    return to_smt(core)


def search_lang(pat):
    """RegLan for { s | Regex::is_match(s) } (unanchored search, honouring a leading ^ / trailing $)."""
    ast, _, _ = parse(pat)
    s, e, core = split_anchors(ast)
    if has_inner_anchor(core):
        raise RxUnsupported("inner anchor in %r" % pat)
    inner = to_smt(core)
    return "(re.++ %s %s %s)" % ('(str.to_re "")' if s else "re.all", inner, '(str.to_re "")' if e else "re.all")


def core_lang(pat):
    """RegLan of the pattern body ignoring outer anchors (the set of strings a match can consist of)."""
    ast, _, _ = parse(pat)
    _, _, core = split_anchors(ast)
    if has_inner_anchor(core):
        raise RxUnsupported("inner anchor in %r" % pat)
    return to_smt(core)


def first_chars(node):
    """Set of code points that can start a non-empty match of node, and whether node is nullable."""
    k = node[0]
    if k == "class":
        return list(node[1]), False
    if k == "cat":
        acc, nullable = [], True
        for n in node[1]:
            f, nl = first_chars(n)
            acc += f
            if not nl:
                nullable = False
                break
        return norm(acc), nullable
    if k == "alt":
        acc, nullable = [], False
        for n in node[1]:
            f, nl = first_chars(n)
            acc += f
            nullable = nullable or nl
        return norm(acc), nullable
    if k == "group":
        return first_chars(node[1])
    if k == "rep":
        f, nl = first_chars(node[1])
        return f, nl or node[2] == 0
    if k in ("bol", "eol"):
        return [], True
    raise RxUnsupported(k)


def is_match_real(pat, texts):
    """Evaluate the real regex crate: list of bool (is_match) for each text."""
    res = rxcheck([("M", [pat, t]) for t in texts])
    return [r is not None and r != "null" for r in res]


def captures_real(pat, text):
    r = rxcheck([("M", [pat, text])])[0]
    if r is None or r == "null":
        return None
    b = text.encode("utf-8")
    out = []
    for g in r.split():
        if g == "-":
            out.append(None)
        else:
            s, e = g.split(",")
            out.append(b[int(s):int(e)].decode("utf-8"))
    return out


def replace_all_real(pat, repl, text):
    r = rxcheck([("R", [pat, repl, text])])[0]
    return None if r is None else _unesc(r)


def escape_real(text):
    """regex::escape as computed by the real crate."""
    r = rxcheck([("E", [text])])[0]
    if r is None:
        raise RxUnsupported("rxcheck E failed")
    return _unesc(r)


# ---- regex -> DFA -> Rust matcher (regex mock for Engine K) ------------------------------------------------------------
def _nfa(node, nfa):
    """Thompson construction.  nfa: dict(state -> list of (ranges|None, target)).  Returns (start, end)."""
    def new():
        nfa.append([])
        return len(nfa) - 1
    k = node[0]
    if k == "class":
        s, e = new(), new()
        nfa[s].append((tuple(node[1]), e))
        return s, e
    if k == "cat":
        s = e = new()
        for n in node[1]:
            a, b = _nfa(n, nfa)
            nfa[e].append((None, a))
            e = b
        return s, e
    if k == "alt":
        s, e = new(), new()
        for n in node[1]:
            a, b = _nfa(n, nfa)
            nfa[s].append((None, a))
            nfa[b].append((None, e))
        return s, e
    if k == "group":
        return _nfa(node[1], nfa)
    if k == "rep":
        inner, lo, hi = node[1], node[2], node[3]
        s = e = new()
        for _ in range(lo):
            a, b = _nfa(inner, nfa)
            nfa[e].append((None, a))
            e = b
        if hi is None:
            a, b = _nfa(inner, nfa)
            nfa[e].append((None, a))
            nfa[b].append((None, a))
            f = new()
            nfa[e].append((None, f))
            nfa[b].append((None, f))
            e = f
        else:
            f = new()
            nfa[e].append((None, f))
            for _ in range(hi - lo):
                a, b = _nfa(inner, nfa)
                nfa[e].append((None, a))
                nfa[b].append((None, f))
                e = b
            e = f
        return s, e
    raise RxUnsupported("dfa: node %r" % (k,))


def dfa(pat):
    """Anchored-at-start DFA of a `^...` pattern (longest match).  Returns (classes, trans, accepting, start): classes is a list of
    code-point range lists (the symbols), trans[state][symbol] -> state or -1."""
    ast, _, _ = parse(pat)
    s_anchor, e_anchor, core = split_anchors(ast)
    if has_inner_anchor(core):
        raise RxUnsupported("dfa: pattern %r has an inner anchor" % pat)
    nfa = []
    start, end = _nfa(core, nfa)
    # symbols: partition of the code point space by all class boundaries
    cuts = {0, MAXCP + 1}
    for st in nfa:
        for rs, _ in st:
            if rs:
                for lo, hi in rs:
                    cuts.add(lo)
                    cuts.add(hi + 1)
    cuts = sorted(cuts)
    atoms = [(cuts[i], cuts[i + 1] - 1) for i in range(len(cuts) - 1)]

    def closure(states):
        stack, seen = list(states), set(states)
        while stack:
            s = stack.pop()
            for rs, t in nfa[s]:
                if rs is None and t not in seen:
                    seen.add(t)
                    stack.append(t)
        return frozenset(seen)
    # group atoms with identical behaviour into symbols
    def sig(atom):
        return tuple(sorted((s, i) for s in range(len(nfa)) for i, (rs, t) in enumerate(nfa[s]) if rs and in_ranges(rs, atom[0])))
    groups = {}
    for a in atoms:
        groups.setdefault(sig(a), []).append(a)
    classes = [norm(v) for k, v in groups.items() if k]          # symbols some transition accepts
    d0 = closure({start})
    states, trans, todo = {d0: 0}, [], [d0]
    while todo:
        cur = todo.pop(0)
        row = []
        for cl in classes:
            cp = cl[0][0]
            nxt = closure({t for s in cur for rs, t in nfa[s] if rs and in_ranges(rs, cp)})
            if not nxt:
                row.append(-1)
                continue
            if nxt not in states:
                states[nxt] = len(states)
                todo.append(nxt)
            row.append(states[nxt])
        trans.append((states[cur], row))
    trans = [r for _, r in sorted(trans)]
    accepting = [end in st for st, _ in sorted(states.items(), key=lambda kv: kv[1])]
    return classes, trans, accepting, (s_anchor, e_anchor)


def dfa_rust(pat, fname):
    """Rust fn `fname(s: &str) -> Option<usize>`: byte length of the longest match of the ^-anchored pattern at the start of s."""
    classes, trans, acc, (s_anchor, e_anchor) = dfa(pat)
    cls_arms = []
    for i, cl in enumerate(classes):
        cls_arms.append("        %s => %d," % (" | ".join("0x%X..=0x%X" % r if r[0] != r[1] else "0x%X" % r[0] for r in cl), i))
    rows = ", ".join("[%s]" % ", ".join(str(x) for x in row) for row in trans)
    common = dict(f=fname, nc=len(classes), ns=len(trans), rows=rows, acc=", ".join("true" if a else "false" for a in acc),
                  arms="\n".join("    " + a for a in cls_arms), ret=("None" if e_anchor else "last"),
                  fin=("if A[state] { Some(pos) } else { None }" if e_anchor else "last"))
    if not s_anchor:
        # unanchored pattern: byte-level matcher (manual UTF-8 decoding, no str slicing) started at every char boundary
        return """
/// unanchored pattern: leftmost match = first char boundary from which the anchored matcher succeeds
fn %(f)s_search(s: &str) -> Option<(usize, usize)> {
    let b = s.as_bytes();
    let mut i = 0;
    loop {
        if let Some(e) = %(f)s_at(b, i) { return Some((i, e)); }
        if i >= b.len() { return None; }
        i += 1;
        while i < b.len() && (b[i] & 0xC0) == 0x80 { i += 1; }
    }
}

fn %(f)s(s: &str) -> Option<usize> { %(f)s_at(s.as_bytes(), 0) }

fn %(f)s_at(b: &[u8], start: usize) -> Option<usize> {
    const T: [[i8; %(nc)d]; %(ns)d] = [%(rows)s];
    const A: [bool; %(ns)d] = [%(acc)s];
    let mut state: usize = 0;
    let mut pos = start;
    let mut last = if A[0] { Some(start) } else { None };
    while pos < b.len() {
        let b0 = b[pos];
        let (cp, l): (u32, usize) = if b0 < 0x80 { (b0 as u32, 1) }
            else if b0 < 0xE0 { ((((b0 & 0x1F) as u32) << 6) | ((b[pos + 1] & 0x3F) as u32), 2) }
            else if b0 < 0xF0 { ((((b0 & 0x0F) as u32) << 12) | (((b[pos + 1] & 0x3F) as u32) << 6) | ((b[pos + 2] & 0x3F) as u32), 3) }
            else { ((((b0 & 0x07) as u32) << 18) | (((b[pos + 1] & 0x3F) as u32) << 12) | (((b[pos + 2] & 0x3F) as u32) << 6) | ((b[pos + 3] & 0x3F) as u32), 4) };
        let cls: usize = match cp {
%(arms)s
            _ => return %(ret)s,
        };
        let n = T[state][cls];
        if n < 0 { return %(ret)s; }
        state = n as usize;
        pos += l;
        if A[state] { last = Some(pos); }
    }
    %(fin)s
}
""" % common
    return """
fn %(f)s(s: &str) -> Option<usize> {
    const T: [[i8; %(nc)d]; %(ns)d] = [%(rows)s];
    const A: [bool; %(ns)d] = [%(acc)s];
    let mut state: usize = 0;
    let mut pos = 0;
    let mut last = if A[0] { Some(0) } else { None };
    for c in s.chars() {
        let cls: usize = match c as u32 {
%(arms)s
            _ => return %(ret)s,
        };
        let n = T[state][cls];
        if n < 0 { return %(ret)s; }
        state = n as usize;
        pos += c.len_utf8();
        if A[state] { last = Some(pos); }
    }
    %(fin)s
}
""" % common


REGEX_MOCK = r'''
/// regex mock for Engine K: each Regex is a generated DFA matcher for its pattern text (leftmost-longest, ^-anchored);
/// natively (replay) the real regex crate is used.
#[cfg(kani)]
#[allow(dead_code)]
pub mod rxmock {
    pub struct Regex { pub f: fn(&str) -> Option<(usize, usize)> }
    pub struct Match<'a> { s: &'a str, a: usize, b: usize }
    impl<'a> Match<'a> { pub fn as_str(&self) -> &'a str { &self.s[self.a..self.b] } pub fn start(&self) -> usize { self.a } pub fn end(&self) -> usize { self.b }
                         pub fn range(&self) -> core::ops::Range<usize> { self.a..self.b } }
    impl Regex {
        pub fn find<'a>(&self, s: &'a str) -> Option<Match<'a>> { match (self.f)(s) { Some((a, b)) => Some(Match { s, a, b }), None => None } }
        pub fn is_match(&self, s: &str) -> bool { (self.f)(s).is_some() }
        /// successive non-overlapping leftmost matches (group 0 only), like regex::Regex::captures_iter / find_iter
        pub fn captures_iter<'r, 'a>(&'r self, s: &'a str) -> CapIter<'r, 'a> { CapIter { re: self, s, pos: 0, done: false } }
    }
    pub struct Captures<'a> { s: &'a str, a: usize, b: usize }
    impl<'a> Captures<'a> {
        pub fn get(&self, i: usize) -> Option<Match<'a>> { assert!(i == 0, "regex mock: only group 0 is modelled"); Some(Match { s: self.s, a: self.a, b: self.b }) }
    }
    impl<'a> core::ops::Index<usize> for Captures<'a> {
        type Output = str;
        fn index(&self, i: usize) -> &str { assert!(i == 0, "regex mock: only group 0 is modelled"); unsafe { core::str::from_utf8_unchecked(&self.s.as_bytes()[self.a..self.b]) } }
    }
    pub struct CapIter<'r, 'a> { re: &'r Regex, s: &'a str, pos: usize, done: bool }
    impl<'r, 'a> Iterator for CapIter<'r, 'a> {
        type Item = Captures<'a>;
        fn next(&mut self) -> Option<Captures<'a>> {
            if self.done || self.pos > self.s.len() { return None; }
            let rest = unsafe { core::str::from_utf8_unchecked(&self.s.as_bytes()[self.pos..]) };
            match (self.re.f)(rest) {
                None => { self.done = true; None }
                Some((a, b)) => {
                    let (a, b) = (a + self.pos, b + self.pos);
                    if b > a { self.pos = b; } else {      // empty match: step over one char
                        let bytes = self.s.as_bytes(); let mut p = b + 1;
                        while p < bytes.len() && (bytes[p] & 0xC0) == 0x80 { p += 1; }
                        self.pos = p;
                    }
                    Some(Captures { s: self.s, a, b })
                }
            }
        }
    }
}
'''


def mock_statics(named_patterns):
    """named_patterns: list of (STATIC_NAME, pattern).  Under Kani: `static NAME: rxmock::Regex` backed by a generated DFA;
    natively: lazy_static with the real regex crate and the same pattern text."""
    from slicer import rust_str
    out = [REGEX_MOCK]
    for name, pat in named_patterns:
        fn_text = dfa_rust(pat, "dfa_" + name.lower())
        out.append("\n".join(("#[cfg(kani)]\n" + part) if part.strip().startswith(("fn ", "///")) else part for part in fn_text.split("\n\n")))
        anchored = "_search" not in fn_text
        if anchored:
            out.append("#[cfg(kani)]\nfn dfa_%s_find(s: &str) -> Option<(usize, usize)> { match dfa_%s(s) { Some(n) => Some((0, n)), None => None } }" % (name.lower(), name.lower()))
            out.append("#[cfg(kani)]\nstatic %s: rxmock::Regex = rxmock::Regex { f: dfa_%s_find };" % (name, name.lower()))
        else:
            out.append("#[cfg(kani)]\nstatic %s: rxmock::Regex = rxmock::Regex { f: dfa_%s_search };" % (name, name.lower()))
    out.append("#[cfg(not(kani))]\nlazy_static::lazy_static! {\n" + "\n".join(
        "    static ref %s: regex::Regex = regex::Regex::new(%s).unwrap();" % (n, rust_str(p)) for n, p in named_patterns) + "\n}")
    return "\n".join(out)


def dfa_match_py(pat, text):
    """Python evaluation of the generated DFA (for translator validation against the real crate)."""
    classes, trans, acc, (s_anchor, e_anchor) = dfa(pat)
    if not s_anchor:
        raise RxUnsupported("dfa_match_py: anchored patterns only")
    state, pos, last = 0, 0, (0 if acc[0] else None)
    for ch in text:
        cp = ord(ch)
        cls = next((i for i, cl in enumerate(classes) if in_ranges(cl, cp)), None)
        if cls is None or trans[state][cls] < 0:
            return None if e_anchor else last
        state = trans[state][cls]
        pos += len(ch.encode("utf-8"))
        if acc[state]:
            last = pos
    return (pos if acc[state] else None) if e_anchor else last
