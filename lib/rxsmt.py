"""Rust `regex` syntax subset -> AST -> SMT-LIB RegLan (Engine Z), plus a reference NFA-free Python matcher
used for translator validation.  Perl/POSIX classes (\\d \\s \\w [[:alpha:]] .) are not guessed: their exact
code-point sets are obtained from the real `regex` crate (native/rxcheck, command C).  A pattern outside
the supported subset raises RxUnsupported -> the check exits 2 (ENCODING-FAILED)."""
import os
import subprocess

from smt_run import smt_str

VERIF = os.path.dirname(os.path.dirname(os.path.abspath(__file__)))
RXCHECK = os.path.join(VERIF, ".build", "rxcheck-target", "debug", "rxcheck")
MAXCP = 0x10FFFF


class RxUnsupported(Exception):
    pass


def build_rxcheck():
    d = os.path.join(VERIF, "native", "rxcheck")
    import shutil
    shutil.copy(os.path.join(os.environ.get("VERIF_REPO", "/repo"), "Cargo.lock"), os.path.join(d, "Cargo.lock"))
    env = dict(os.environ, CARGO_NET_OFFLINE="true", CARGO_TARGET_DIR=os.path.join(VERIF, ".build", "rxcheck-target"))
    p = subprocess.run(["cargo", "build", "--offline"], cwd=d, capture_output=True, text=True, env=env)
    if p.returncode != 0:
        raise RuntimeError("rxcheck build failed: " + p.stderr[-2000:])


def _esc(s):
    out = []
    for ch in s:
        o = ord(ch)
        if ch == "\\":
            out.append("\\\\")
        elif ch == "\n":
            out.append("\\n")
        elif ch == "\t":
            out.append("\\t")
        elif o < 0x20 or o > 0x7E:
            out.append("\\u{%x}" % o)
        else:
            out.append(ch)
    return "".join(out)


def _unesc(s):
    import re
    return re.sub(r"\\u\{([0-9a-f]+)\}|\\n|\\t|\\\\", lambda m: chr(int(m.group(1), 16)) if m.group(1) else {"\\n": "\n", "\\t": "\t", "\\\\": "\\"}[m.group(0)], s)


_built = False


def rxcheck(lines):
    """lines: list of (cmd, [fields]).  Returns list of result strings (after 'OK ') or raises."""
    global _built
    if not _built:
        build_rxcheck()      # incremental: a no-op when nothing changed
        _built = True
    inp = "\n".join("%s %s" % (c, "\t".join(_esc(f) for f in fs)) for c, fs in lines) + "\n"
    p = subprocess.run([RXCHECK], input=inp, capture_output=True, text=True, timeout=600)
    out = []
    for l in p.stdout.splitlines():
        if l.startswith("OK"):
            out.append(l[3:])
        else:
            out.append(None)
    if len(out) != len(lines):
        raise RuntimeError("rxcheck protocol error: %s" % p.stderr[-500:])
    return out


_class_cache = {}


def real_class(pat):
    """Exact set of chars matched by a single-char pattern, computed by the real regex crate."""
    if pat not in _class_cache:
        r = rxcheck([("C", [pat])])[0]
        if r is None:
            raise RxUnsupported("rxcheck cannot compile class %r" % pat)
        _class_cache[pat] = [tuple(int(x, 16) for x in rg.split("-")) for rg in r.split()]
    return _class_cache[pat]


# ---- ranges ------------------------------------------------------------------------------------
def norm(ranges):
    rs = sorted(ranges)
    out = []
    for lo, hi in rs:
        if out and lo <= out[-1][1] + 1:
            out[-1] = (out[-1][0], max(out[-1][1], hi))
        else:
            out.append((lo, hi))
    return out


def negate(ranges):
    out, prev = [], 0
    for lo, hi in norm(ranges):
        if lo > prev:
            out.append((prev, lo - 1))
        prev = hi + 1
    if prev <= MAXCP:
        out.append((prev, MAXCP))
    # surrogates are not chars
    res = []
    for lo, hi in out:
        if hi < 0xD800 or lo > 0xDFFF:
            res.append((lo, hi))
        else:
            if lo < 0xD800:
                res.append((lo, 0xD7FF))
            if hi > 0xDFFF:
                res.append((0xE000, hi))
    return res


def in_ranges(ranges, cp):
    return any(lo <= cp <= hi for lo, hi in ranges)


# ---- parser ------------------------------------------------------------------------------------
class P:
    def __init__(self, pat):
        self.s, self.i, self.ngroups, self.names = pat, 0, 0, {}

    def peek(self):
        return self.s[self.i] if self.i < len(self.s) else None

    def eat(self, c=None):
        ch = self.s[self.i]
        if c is not None and ch != c:
            raise RxUnsupported("expected %r at %d in %r" % (c, self.i, self.s))
        self.i += 1
        return ch

    def parse(self):
        node = self.alt()
        if self.i != len(self.s):
            raise RxUnsupported("trailing %r in %r" % (self.s[self.i:], self.s))
        return node

    def alt(self):
        branches = [self.cat()]
        while self.peek() == "|":
            self.eat()
            branches.append(self.cat())
        return branches[0] if len(branches) == 1 else ("alt", branches)

    def cat(self):
        items = []
        while self.peek() is not None and self.peek() not in "|)":
            items.append(self.rep())
        return ("cat", items)

    def rep(self):
        atom = self.atom()
        while self.peek() is not None and self.peek() in "*+?{":
            c = self.peek()
            if c == "{":
                j = self.s.find("}", self.i)
                body = self.s[self.i + 1:j]
                if j < 0 or not body.replace(",", "").isdigit():
                    raise RxUnsupported("bad repetition in %r" % self.s)
                self.i = j + 1
                if "," in body:
                    lo, hi = body.split(",")
                    lo, hi = int(lo), (int(hi) if hi else None)
                else:
                    lo = hi = int(body)
            else:
                self.eat()
                lo, hi = {"*": (0, None), "+": (1, None), "?": (0, 1)}[c]
            lazy = False
            if self.peek() == "?":
                self.eat()
                lazy = True
            atom = ("rep", atom, lo, hi, lazy)
        return atom

    def atom(self):
        c = self.eat()
        if c == "(":
            cap, name = True, None
            if self.peek() == "?":
                self.eat()
                if self.peek() == ":":
                    self.eat()
                    cap = False
                elif self.peek() == "P":
                    self.eat()
                    self.eat("<")
                    j = self.s.index(">", self.i)
                    name = self.s[self.i:j]
                    self.i = j + 1
                else:
                    raise RxUnsupported("group flag in %r" % self.s)
            idx = None
            if cap:
                self.ngroups += 1
                idx = self.ngroups
                if name:
                    self.names[name] = idx
            inner = self.alt()
            self.eat(")")
            return ("group", inner, idx, name)
        if c == "[":
            return self.cls()
        if c == ".":
            return ("class", negate([(10, 10)]))
        if c == "^":
            return ("bol",)
        if c == "$":
            return ("eol",)
        if c == "\\":
            return self.escape(False)
        return ("class", [(ord(c), ord(c))])

    def escape(self, in_class):
        e = self.eat()
        if e in "dsw":
            return ("class", real_class("\\" + e))
        if e in "DSW":
            return ("class", negate(real_class("\\" + e.lower())))
        if e == "u" or e == "U" or e == "x":
            if self.peek() == "{":
                j = self.s.index("}", self.i)
                cp = int(self.s[self.i + 1:j], 16)
                self.i = j + 1
            else:
                n = {"u": 4, "U": 8, "x": 2}[e]
                cp = int(self.s[self.i:self.i + n], 16)
                self.i += n
            return ("class", [(cp, cp)])
        if e == "n":
            return ("class", [(10, 10)])
        if e == "t":
            return ("class", [(9, 9)])
        if e == "r":
            return ("class", [(13, 13)])
        if e.isalnum():
            raise RxUnsupported("escape \\%s in %r" % (e, self.s))
        return ("class", [(ord(e), ord(e))])

    def cls(self):
        neg = False
        if self.peek() == "^":
            self.eat()
            neg = True
        ranges = []
        first = True
        while True:
            c = self.peek()
            if c is None:
                raise RxUnsupported("unterminated class in %r" % self.s)
            if c == "]" and not first:
                self.eat()
                break
            first = False
            if c == "[" and self.s.startswith("[:", self.i):
                j = self.s.index(":]", self.i)
                nm = self.s[self.i + 2:j]
                self.i = j + 2
                ranges += real_class("[[:%s:]]" % nm)
                continue
            if c == "[" or (c == "&" and self.s.startswith("&&", self.i)) or (c == "-" and self.s.startswith("--", self.i)) or (c == "~" and self.s.startswith("~~", self.i)):
                raise RxUnsupported("class set operation in %r" % self.s)
            self.eat()
            if c == "\\":
                node = self.escape(True)
                rs = node[1]
                if len(rs) != 1 or rs[0][0] != rs[0][1]:
                    ranges += rs
                    continue
                lo = rs[0][0]
            else:
                lo = ord(c)
            if self.peek() == "-" and self.i + 1 < len(self.s) and self.s[self.i + 1] != "]":
                self.eat()
                h = self.eat()
                if h == "\\":
                    rs = self.escape(True)[1]
                    if len(rs) != 1 or rs[0][0] != rs[0][1]:
                        raise RxUnsupported("class range end in %r" % self.s)
                    hi = rs[0][0]
                else:
                    hi = ord(h)
                if hi < lo:
                    raise RxUnsupported("reversed range in %r" % self.s)
                ranges.append((lo, hi))
            else:
                ranges.append((lo, lo))
        ranges = norm(ranges)
        return ("class", negate(ranges) if neg else ranges)


def parse(pat):
    p = P(pat)
    ast = p.parse()
    return ast, p.ngroups, p.names


# ---- SMT emission ------------------------------------------------------------------------------
CLASS_FILTER = None   # optional list of ranges every class is intersected with (sound when the query restricts the alphabet anyway)


def _intersect(r1, r2):
    out = []
    for a, b in r1:
        for c, d in r2:
            lo, hi = max(a, c), min(b, d)
            if lo <= hi:
                out.append((lo, hi))
    return norm(out)


def cls_smt(ranges):
    if CLASS_FILTER is not None:
        ranges = _intersect(ranges, CLASS_FILTER)
    if not ranges:
        return "re.none"
    parts = []
    for lo, hi in ranges:
        if lo == hi:
            parts.append("(str.to_re %s)" % smt_str(chr(lo)))
        else:
            parts.append("(re.range %s %s)" % (smt_str(chr(lo)), smt_str(chr(hi))))
    return parts[0] if len(parts) == 1 else "(re.union %s)" % " ".join(parts)


def to_smt(node):
    """RegLan term of the *language* of the node (anchors must have been stripped by split_anchors)."""
    k = node[0]
    if k == "class":
        return cls_smt(node[1])
    if k == "cat":
        items = [to_smt(n) for n in node[1]]
        if not items:
            return '(str.to_re "")'
        return items[0] if len(items) == 1 else "(re.++ %s)" % " ".join(items)
    if k == "alt":
        return "(re.union %s)" % " ".join(to_smt(n) for n in node[1])
    if k == "group":
        return to_smt(node[1])
    if k == "rep":
        inner, lo, hi = to_smt(node[1]), node[2], node[3]
        if (lo, hi) == (0, None):
            return "(re.* %s)" % inner
        if (lo, hi) == (1, None):
            return "(re.+ %s)" % inner
        if (lo, hi) == (0, 1):
            return "(re.opt %s)" % inner
        if hi is None:
            return "(re.++ ((_ re.loop %d %d) %s) (re.* %s))" % (lo, lo, inner, inner)
        return "((_ re.loop %d %d) %s)" % (lo, hi, inner)
    if k in ("bol", "eol"):
        raise RxUnsupported("anchor in the middle of a pattern")
    raise RxUnsupported("node %r" % (k,))


def split_anchors(ast):
    """Returns (anchored_start, anchored_end, ast_without_outer_anchors).  Only a leading ^ / trailing $ of a top-level
    concatenation (or of every top-level alternative) is supported."""
    if ast[0] == "alt":
        parts = [split_anchors(b) for b in ast[1]]
        if all(p[0] and p[1] for p in parts):
            return True, True, ("alt", [p[2] for p in parts])
        if not any(p[0] or p[1] for p in parts):
            return False, False, ast
        raise RxUnsupported("mixed anchoring of alternatives")
    if ast[0] != "cat":
        return False, False, ast
    items = list(ast[1])
    s = e = False
    # allow  ^\s*^...  (MathCAT's roman numeral patterns): a second ^ after nullable stuff is only consistent if that stuff is empty
    if items and items[0] == ("bol",):
        s = True
        items = items[1:]
    if items and items[-1] == ("eol",):
        e = True
        items = items[:-1]
    return s, e, ("cat", items)


def has_inner_anchor(ast):
    if ast[0] in ("bol", "eol"):
        return True
    if ast[0] in ("cat", "alt"):
        return any(has_inner_anchor(n) for n in ast[1])
    if ast[0] in ("group", "rep"):
        return has_inner_anchor(ast[1])
    return False


def full_match_lang(pat):
    """RegLan for { s | regex `pat` matches s *as a whole* }: for ^...$ patterns this is is_match(s)."""
    ast, _, _ = parse(pat)
    s, e, core = split_anchors(ast)
    if has_inner_anchor(core):
        raise RxUnsupported("inner anchor in %r" % pat)
    if not (s and e):
        raise RxUnsupported("pattern %r is not fully anchored" % pat)
    return to_smt(core)


def search_lang(pat):
    """RegLan for { s | Regex::is_match(s) } (unanchored search, honouring a leading ^ / trailing $)."""
    ast, _, _ = parse(pat)
    s, e, core = split_anchors(ast)
    if has_inner_anchor(core):
        raise RxUnsupported("inner anchor in %r" % pat)
    inner = to_smt(core)
    return "(re.++ %s %s %s)" % ('(str.to_re "")' if s else "re.all", inner, '(str.to_re "")' if e else "re.all")


def core_lang(pat):
    """RegLan of the pattern body ignoring outer anchors (the set of strings a match can consist of)."""
    ast, _, _ = parse(pat)
    _, _, core = split_anchors(ast)
    if has_inner_anchor(core):
        raise RxUnsupported("inner anchor in %r" % pat)
    return to_smt(core)


def first_chars(node):
    """Set of code points that can start a non-empty match of node, and whether node is nullable."""
    k = node[0]
    if k == "class":
        return list(node[1]), False
    if k == "cat":
        acc, nullable = [], True
        for n in node[1]:
            f, nl = first_chars(n)
            acc += f
            if not nl:
                nullable = False
                break
        return norm(acc), nullable
    if k == "alt":
        acc, nullable = [], False
        for n in node[1]:
            f, nl = first_chars(n)
            acc += f
            nullable = nullable or nl
        return norm(acc), nullable
    if k == "group":
        return first_chars(node[1])
    if k == "rep":
        f, nl = first_chars(node[1])
        return f, nl or node[2] == 0
    if k in ("bol", "eol"):
        return [], True
    raise RxUnsupported(k)


def is_match_real(pat, texts):
    """Evaluate the real regex crate: list of bool (is_match) for each text."""
    res = rxcheck([("M", [pat, t]) for t in texts])
    return [r is not None and r != "null" for r in res]


def captures_real(pat, text):
    r = rxcheck([("M", [pat, text])])[0]
    if r is None or r == "null":
        return None
    b = text.encode("utf-8")
    out = []
    for g in r.split():
        if g == "-":
            out.append(None)
        else:
            s, e = g.split(",")
            out.append(b[int(s):int(e)].decode("utf-8"))
    return out


def replace_all_real(pat, repl, text):
    r = rxcheck([("R", [pat, repl, text])])[0]
    return None if r is None else _unesc(r)


def escape_real(text):
    """regex::escape as computed by the real crate."""
    r = rxcheck([("E", [text])])[0]
    if r is None:
        raise RxUnsupported("rxcheck E failed")
    return _unesc(r)
